#!/opt/veriftools/pyvenv/bin/python
import json, sys, glob, os
import jsonschema
here = os.path.dirname(os.path.dirname(os.path.abspath(__file__)))
jsonschema.validate(json.load(open(here + '/MANIFEST.json')), json.load(open('/root/.vp/MANIFEST.schema.json')))
es = json.load(open('/root/.vp/EVIDENCE.schema.json'))
for f in sorted(glob.glob(here + '/evidence/*.json')):
    jsonschema.validate(json.load(open(f)), es)
    print('ok', os.path.basename(f))
print('manifest ok')
