#!/bin/bash
# usage: tools/with_mutant.sh <patch-file|-e 'python-edit'> -- <command...>
# Copies /repo's working tree to a scratch dir outside /repo and /verif, applies the patch there, runs the command
# with VERIF_REPO pointing at the copy, then removes the copy. /repo itself is never touched.
set -u
patch="$(realpath "$1")"; shift
[ "$1" = "--" ] && shift
scratch="$(mktemp -d /tmp/vfmut.XXXXXX)"
trap 'rm -rf "$scratch"' EXIT
mkdir -p "$scratch/repo"
rsync -a --exclude .git --exclude __pycache__ --exclude docs --exclude bindist /repo/ "$scratch/repo/"
( cd "$scratch/repo" && patch -p1 -s < "$patch" ) || { echo "patch failed"; exit 3; }
VERIF_REPO="$scratch/repo" "$@"
