#!/bin/bash
# usage: tools/run_seeded.sh [tier] [parallel]   -- runs every seeded change under seeded/<ID>-<mK>/ against ./check <ID> <tier>
# (scratch copies of /repo; /repo itself is never touched). Prints DETECTED / MISSED per seeded change.
# Evidence files are written by these runs: re-run the checks on the clean tree afterwards.
here="$(cd "$(dirname "$0")/.." && pwd)"; tier="${1:-quick}"; par="${2:-1}"
cd "$here"
one() {
  d="$1"; tier="$2"
  name="$(basename "$d")"; id="${name%%-*}"
  # a change written against one property may be decided by another property's check (meta.json: "check_with")
  cw="$(/venv/bin/python -c "import json,sys; print(json.load(open(sys.argv[1])).get('check_with') or '')" "$d/meta.json" 2>/dev/null)"
  [ -n "$cw" ] && id="$cw"
  out="$(tools/with_mutant.sh "$d/patch.diff" -- ./check "$id" "$tier" 2>&1)"; rc=$?
  if [ $rc -eq 1 ]; then echo "DETECTED $name${cw:+ (by $cw)}: $(echo "$out" | grep -m1 '^  key=' | cut -c1-160)"; else echo "MISSED   $name (rc=$rc)"; fi
}
export -f one
ls -d seeded/*/ | sed 's#/$##' | xargs -P "$par" -I{} bash -c 'one "$0" "$1"' {} "$tier"
