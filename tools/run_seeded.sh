#!/bin/bash
# usage: tools/run_seeded.sh [tier]   -- runs every seeded change under seeded/<ID>-<mK>/ against ./check <ID> <tier>
# (scratch copies of /repo; /repo itself is never touched). Prints DETECTED / MISSED per seeded change.
here="$(cd "$(dirname "$0")/.." && pwd)"; tier="${1:-quick}"
cd "$here"
for d in seeded/*/; do
  name="$(basename "$d")"; id="${name%%-*}"
  out="$(tools/with_mutant.sh "$here/$d/patch.diff" -- ./check "$id" "$tier" 2>&1)"; rc=$?
  if [ $rc -eq 1 ]; then echo "DETECTED $name: $(echo "$out" | grep -m1 '^  key=' | cut -c1-160)"; else echo "MISSED   $name (rc=$rc)"; fi
done
