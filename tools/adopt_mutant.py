#!/venv/bin/python
"""usage: tools/adopt_mutant.py <ID> <mK> "<caught by / notes>"  -- copies a confirmed seeded change into seeded/<ID>-<mK>/"""
import json, os, shutil, sys
pid, mk, notes = sys.argv[1], sys.argv[2], sys.argv[3]
base = sys.argv[4] if len(sys.argv) > 4 else '/tmp/wt'
check_with = sys.argv[5] if len(sys.argv) > 5 else None     # another property's check decides this change          # round 2 lives under /tmp/wt2 and is stored as <ID>-r2-<mK>
tag = {'/tmp/wt': '', '/tmp/wt2': 'r2-', '/tmp/wt3': 'r3-', '/tmp/wt4': 'r4-', '/tmp/wt5': 'r5-', '/tmp/wt6': 'r6-'}.get(base, 'rx-')
src = f'{base}/{pid}/MUTANTS/{mk}'
dst = os.path.join(os.path.dirname(os.path.dirname(os.path.abspath(__file__))), 'seeded', f'{pid}-{tag}{mk}')
os.makedirs(dst, exist_ok=True)
shutil.copy(os.path.join(src, 'patch.diff'), dst)
shutil.copy(os.path.join(src, 'demo.py'), dst)
meta = json.load(open(os.path.join(src, 'meta.json')))
rf = f'/tmp/evalres/{tag}{pid}_{mk}.txt'
res = open(rf).read() if os.path.exists(rf) else ''
meta_out = {
    'property': pid,
    'breaks': meta.get('summary'),
    'needs_to_manifest': meta.get('needs'),
    'files': meta.get('files'),
    'origin': 'written by an independent sub-agent that saw only the property text and a scratch worktree of the repository',
    'confirmed_by_me': {
        'how': 'tools/eval_mutant.sh: scratch copy of /repo; demo.py exits 0 on the clean copy and 1 with patch.diff applied; '
               'the 66 repository tests pass with the patch applied; ./check %s quick run against the patched copy' % pid,
        'result_line': next((l for l in res.splitlines() if l.startswith('RESULT')), ''),
    },
    'detected_by': notes,
}
if check_with:
    meta_out['check_with'] = check_with
json.dump(meta_out, open(os.path.join(dst, 'meta.json'), 'w'), indent=1)
print('adopted', dst)
