#!/venv/bin/python
"""Rewrites the table of section 6 of DESIGN.md (between the markers) from seeded/*/meta.json."""
import glob, json, os, re
here = os.path.dirname(os.path.dirname(os.path.abspath(__file__)))
rows = []
for d in sorted(glob.glob(os.path.join(here, 'seeded', '*', ''))):
    m = json.load(open(d + 'meta.json'))
    name = os.path.basename(d.rstrip('/'))
    br = (m.get('breaks') or '').replace('|', '/').replace('\n', ' ')
    if len(br) > 230:
        br = br[:227] + '...'
    rows.append(f"| {name} | {br} | {(m.get('detected_by') or '').replace('|', '/')} |")
table = "| seeded change | what it changes | caught by |\n|---|---|---|\n" + "\n".join(rows) + "\n"
p = os.path.join(here, 'DESIGN.md')
s = open(p).read()
s2 = re.sub(r"\| seeded change \| what it changes \| caught by \|\n\|---\|---\|---\|\n(?:\|.*\n)+", lambda _: table, s, count=1)
open(p, 'w').write(s2)
print(len(rows), 'rows')
