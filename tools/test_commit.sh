#!/bin/bash
# usage: tools/test_commit.sh [<rev>]   -- runs the repository's pinned test suite on an exported copy of <rev> (default HEAD)
rev="${1:-HEAD}"
sha="$(git -C /repo rev-parse --short "$rev")"
d="/tmp/vftest.$sha"
rm -rf "$d"; mkdir -p "$d"
git -C /repo archive "$rev" | tar -x -C "$d"
( cd "$d" && /venv/bin/python -m pytest -q -p no:cacheprovider --timeout=900 --continue-on-collection-errors -x -q 2>&1 | tail -5 ) > "/tmp/vftest.$sha.log" 2>&1
( cd "$d" && /venv/bin/python -c "import graphtage,sys; print('imported from', graphtage.__file__)" ) >> "/tmp/vftest.$sha.log" 2>&1
rm -rf "$d"
echo "$sha: $(grep -E 'passed|failed|error' /tmp/vftest.$sha.log | tail -1)"
