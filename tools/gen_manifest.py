#!/venv/bin/python
"""Regenerates MANIFEST.json from the property modules that exist (vf/props/cNN.py) and tools/not_applicable.json."""
import importlib
import json
import os
import sys

here = os.path.dirname(os.path.dirname(os.path.abspath(__file__)))
sys.path[:0] = ['/repo', here, os.path.join(here, '.deps')]
props = [json.loads(l) for l in open(os.path.join(here, 'properties.jsonl'))]
na_path = os.path.join(here, 'tools', 'not_applicable.json')
na_reasons = json.load(open(na_path)) if os.path.exists(na_path) else {}
checks, na = [], []
for p in props:
    pid = p['id']
    if not os.path.exists(os.path.join(here, 'vf', 'props', pid.lower() + '.py')) or pid in na_reasons:
        na.append({'property_id': pid, 'reason': na_reasons.get(pid, 'check not built yet (work in progress; see DESIGN.md)')})
        continue
    m = importlib.import_module('vf.props.' + pid.lower())
    checks.append({
        'property_id': pid,
        'quick_cmd': f'./check {pid} quick',
        'thorough_cmd': f'./check {pid} thorough',
        'evidence_file': f'evidence/{pid}.json',
        'replay_cmd_template': f'./check {pid} --replay {{path}}',
        'engine': 'vf',
        'level_claimed': {'category': m.LEVEL, 'text': m.MANIFEST_TEXT, 'design_ref': m.DESIGN_REF},
        'level_note': m.MANIFEST_NOTE,
        'technique': m.TECHNIQUE,
    })
manifest = {
    'version': 1,
    'setup_cmd': './setup.sh',
    'hooks': {
        'guard': 'GRAPHTAGE_VERIF',
        'enable': 'no source hooks: every observation point is reached from outside (monitors wrap methods at import '
                  'time in the harness process); checks import graphtage from /repo\'s working tree in a fresh interpreter',
        'baseline_off_cmd': 'cd /repo && /venv/bin/python -m pytest -ra -q -p no:cacheprovider --timeout=900 '
                            '--continue-on-collection-errors',
        'source_commits': [],
        'add_only': True,
    },
    'engines': [{
        'name': 'vf',
        'path': 'vf/',
        'serves_properties': [c['property_id'] for c in checks],
        'kind_free_text': 'property-based testing / fuzzing harness: Hypothesis strategies and exhaustive enumeration '
                          'sharded over 16 processes, explicit oracles per property, collect-mode failure bucketing by '
                          'root cause, count-bounded structural shrinking, JSON replay files, known-findings file',
    }],
    'checks': checks,
    'not_applicable': na,
    'notes': 'All checks: cwd=/verif, ./check <ID> <tier>; VERIF_SEED selects the generator seed; exit 0 held / 1 '
             'VIOLATION / 2 harness error. known_findings.json lists recorded and fixed genuine defects.',
}
with open(os.path.join(here, 'MANIFEST.json'), 'w') as f:
    json.dump(manifest, f, indent=1)
    f.write('\n')
print(len(checks), 'checks;', len(na), 'not applicable')
