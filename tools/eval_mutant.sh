#!/bin/bash
# usage: tools/eval_mutant.sh <mutant-dir containing patch.diff, demo.py> <ID> [tier] [--tests]
# Confirms a seeded change in a scratch copy of /repo (never touches /repo): demo passes without / fails with the patch,
# optionally the 66 repository tests still pass with it, then runs ./check <ID> <tier> against the patched copy.
mdir="$(cd "$1" && pwd)"; id="$2"; tier="${3:-quick}"; tests="$4"
here="$(cd "$(dirname "$0")/.." && pwd)"
scratch="$(mktemp -d /tmp/vfeval.XXXXXX)"
trap 'rm -rf "$scratch"' EXIT
mkdir -p "$scratch/repo"
rsync -a --exclude .git --exclude __pycache__ --exclude docs --exclude bindist --exclude MUTANTS /repo/ "$scratch/repo/"
mkdir -p "$scratch/repo/MUTANTS/m"; cp "$mdir/demo.py" "$scratch/repo/MUTANTS/m/demo.py"
( cd "$scratch/repo" && timeout 300 /venv/bin/python MUTANTS/m/demo.py >/dev/null 2>&1 ); clean=$?
( cd "$scratch/repo" && patch -p1 -s < "$mdir/patch.diff" ) || { echo "RESULT $id $(basename $mdir): PATCH-FAILED"; exit 3; }
( cd "$scratch/repo" && timeout 300 /venv/bin/python MUTANTS/m/demo.py >/dev/null 2>&1 ); mutated=$?
t="skipped"
if [ "$tests" = "--tests" ]; then
  ( cd "$scratch/repo" && /venv/bin/python -m pytest -q -p no:cacheprovider --timeout=900 -x -q >"$scratch/t.log" 2>&1 ) && t="pass" || t="FAIL"
fi
out="$(cd "$here" && VERIF_REPO="$scratch/repo" ./check "$id" "$tier" 2>&1)"; rc=$?
echo "RESULT $id $(basename $(dirname $mdir))/$(basename $mdir): demo clean=$clean mutated=$mutated tests=$t check[$tier] rc=$rc"
echo "$out" | grep -E "^VIOLATION|^  key=" | head -6 | cut -c1-260
