#!/bin/bash
# Offline setup: put hypothesis (and atheris for the C19 thorough tier) beside the repository's packages.
here="$(cd "$(dirname "$0")" && pwd)"
mkdir -p "$here/.deps"
if ! PYTHONPATH="$here/.deps" /venv/bin/python -c "import hypothesis" 2>/dev/null; then
  /venv/bin/python -m pip install -q --no-index --find-links /opt/veriftools/wheels --target "$here/.deps" hypothesis || exit 1
fi
if ! PYTHONPATH="$here/.deps" /venv/bin/python -c "import atheris" 2>/dev/null; then
  /venv/bin/python -m pip install -q --no-index --find-links /opt/veriftools/wheels --target "$here/.deps" atheris || echo "atheris unavailable (only the optional C19 fuzz supplement needs it)"
fi
PYTHONPATH="/repo:$here:$here/.deps" /venv/bin/python -c "import hypothesis, graphtage, vf.core; print('setup ok: hypothesis', hypothesis.__version__)"
