"""ANSI + combining-mark classifier, lexer and separator-tolerant JSON parser for rendered diffs (C06, C11, C02).

Independent of graphtage's own formatting code: it only looks at the characters written to the stream.
"""
import io
import json
import re

from . import common  # noqa: F401  (harness neutralisations)
from graphtage.printer import Printer

STRIKE = '̶'
PLUS = '̟'
ANSI = re.compile(r'\x1b\[([0-9;]*)m')


def classify(text):
    """-> list of (char, cls): K(ept) R(emoved) I(nserted) A(rrow, the cyan ' -> ') X(both marks: contradictory)."""
    out = []
    fore = back = None
    i = 0
    n = len(text)
    while i < n:
        m = ANSI.match(text, i)
        if m:
            for code in (m.group(1) or '0').split(';'):
                c = int(code or 0)
                if c == 0:
                    fore = back = None
                elif 30 <= c <= 37 or 90 <= c <= 97:
                    fore = c
                elif c == 39:
                    fore = None
                elif 40 <= c <= 47 or 100 <= c <= 107:
                    back = c
                elif c == 49:
                    back = None
            i = m.end()
            continue
        ch = text[i]
        i += 1
        marks = set()
        while i < n and text[i] in (STRIKE, PLUS):
            marks.add(text[i])
            i += 1
        if STRIKE in marks and PLUS in marks:
            cls = 'X'
        elif STRIKE in marks or back == 41:
            cls = 'R'
        elif PLUS in marks or back == 42:
            cls = 'I'
        elif fore == 36 and ch in ' ->':
            cls = 'A'
        else:
            cls = 'K'
        out.append((ch, cls))
    return out


class LexError(Exception):
    pass


def lex(chars):
    """Tokens over the FULL classified stream (arrows are token boundaries). token = (kind, [(ch, cls), ...])."""
    toks = []
    i = 0
    n = len(chars)
    while i < n:
        ch, cls = chars[i]
        if cls == 'A':
            i += 1
            continue
        if ch in ' \t\r\n':
            i += 1
            continue
        if ch in '{}[]:,':
            toks.append((ch, [chars[i]]))
            i += 1
            continue
        if ch == '"':
            j = i + 1
            body = []
            while True:
                if j >= n:
                    raise LexError('unterminated string')
                c, k = chars[j]
                if c == '\\':
                    if j + 1 >= n:
                        raise LexError('dangling backslash')
                    if chars[j + 1][0] == 'u':
                        grp = chars[j:j + 6]
                        body.append(grp)
                        j += 6
                    else:
                        body.append(chars[j:j + 2])
                        j += 2
                    continue
                if c == '"':
                    break
                body.append([chars[j]])
                j += 1
            if j >= n:
                raise LexError('unterminated string')
            toks.append(('str', [[chars[i]]] + body + [[chars[j]]]))
            i = j + 1
            continue
        j = i
        body = []
        while j < n and chars[j][1] != 'A' and chars[j][0] not in ' \t\r\n{}[]:,"':
            body.append(chars[j])
            j += 1
        toks.append(('atom', body))
        i = j
    return toks


def project(toks, drop):
    """Keeps per token the characters not of class `drop`; a token that projects to nothing disappears."""
    out = []
    for kind, cs in toks:
        if kind == 'str':
            units = []
            for unit in cs:
                classes = {k for _, k in unit}
                if 'X' in classes:
                    raise LexError('character carries both the removed and the inserted mark')
                if len(classes) > 1:
                    raise LexError(f"escape sequence {''.join(c for c, _ in unit)!r} is split between classes {sorted(classes)}")
                if drop not in classes:
                    units.append(''.join(c for c, _ in unit))
            if not units:
                continue
            s = ''.join(units)
            if len(units) < 2 or units[0] != '"' or units[-1] != '"':
                raise LexError(f'string token loses a quote when {drop} is dropped: {s!r}')
            try:
                out.append(('str', json.loads(s)))
            except ValueError as e:
                raise LexError(f'projected string {s!r} is not valid JSON: {e}')
        elif kind == 'atom':
            if any(k == 'X' for _, k in cs):
                raise LexError('character carries both the removed and the inserted mark')
            kept = [c for c, k in cs if k != drop]
            if not kept:
                continue
            s = ''.join(kept)
            if len(kept) != len(cs):
                raise LexError(f'scalar token partially marked: {s!r}')
            try:
                out.append(('atom', json.loads(s)))
            except ValueError as e:
                raise LexError(f'projected scalar {s!r} is not valid JSON: {e}')
        else:
            (c, k), = cs
            if k == 'X':
                raise LexError('character carries both the removed and the inserted mark')
            if k == drop:
                continue
            out.append((kind, None))
    return out


def parse(toks):
    """Separator-tolerant JSON parser over projected tokens: commas are optional and ignorable."""
    pos = [0]

    def skipc():
        while pos[0] < len(toks) and toks[pos[0]][0] == ',':
            pos[0] += 1

    def val():
        skipc()
        if pos[0] >= len(toks):
            raise LexError('unexpected end')
        k, v = toks[pos[0]]
        pos[0] += 1
        if k in ('str', 'atom'):
            return v
        if k == '[':
            xs = []
            while True:
                skipc()
                if pos[0] >= len(toks):
                    raise LexError('end inside list')
                if toks[pos[0]][0] == ']':
                    pos[0] += 1
                    return xs
                xs.append(val())
        if k == '{':
            d = {}
            while True:
                skipc()
                if pos[0] >= len(toks):
                    raise LexError('end inside object')
                if toks[pos[0]][0] == '}':
                    pos[0] += 1
                    return d
                kk = val()
                if not isinstance(kk, str):
                    raise LexError(f'non-string key {kk!r}')
                if pos[0] >= len(toks) or toks[pos[0]][0] != ':':
                    raise LexError('missing colon')
                pos[0] += 1
                if kk in d:
                    raise LexError(f'duplicate key {kk!r}')
                d[kk] = val()
        raise LexError(f'unexpected {k!r}')

    v = val()
    skipc()
    if pos[0] != len(toks):
        raise LexError('trailing tokens')
    return v


def render_json(diff, join_lists=False, join_dict_items=False, ansi=True):
    from graphtage.json import JSONFormatter
    s = io.StringIO()
    p = Printer(out_stream=s, ansi_color=ansi, quiet=True,
                options={'join_lists': join_lists, 'join_dict_items': join_dict_items})
    JSONFormatter.DEFAULT_INSTANCE.print(p, diff)
    p.flush(final=True)
    return s.getvalue()


def has_marks(chars):
    return any(k in 'RIAX' for _, k in chars)


def classify_string_render(a, b):
    """(kept, removed, inserted) character counts inside string tokens of the rendered diff of two strings."""
    from graphtage import StringNode
    d = StringNode(a).diff(StringNode(b))
    text = render_json(d)
    toks = lex(classify(text))
    k = r = i = 0
    for kind, cs in toks:
        if kind != 'str':
            return None
        for unit in cs[1:-1]:
            # one unit = one character of the string (an escape sequence such as \u00e9 counts once; the high half of a
            # surrogate pair is not counted, its low half is)
            txt = ''.join(c for c, _ in unit)
            if len(txt) == 6 and txt.startswith('\\u') and 0xD800 <= int(txt[2:], 16) <= 0xDBFF:
                continue
            classes = {cls for _, cls in unit}
            if len(classes) != 1:
                return None
            cls = classes.pop()
            if cls == 'K':
                k += 1
            elif cls == 'R':
                r += 1
            elif cls == 'I':
                i += 1
            else:
                return None
    return k, r, i
