"""In-process driver for graphtage.__main__.main (captures stdout / stderr / return value / escaping exception) and
a subprocess driver for true `python -m graphtage` runs."""
import json
import os
import plistlib
import subprocess
import sys

from . import common
from .core import REPO, innermost_repo_frame, scratch_dir

import graphtage.__main__ as gmain


class Result:
    __slots__ = ('rc', 'out', 'err', 'exc', 'exc_key')

    def __init__(self, rc, out, err, exc, exc_key):
        self.rc, self.out, self.err, self.exc, self.exc_key = rc, out, err, exc, exc_key

    def summary(self):
        return {'rc': self.rc, 'out': self.out[:300], 'err': self.err[-300:], 'exc': self.exc_key}


class _Stdin:
    """what main() needs of standard input: sys.stdin.buffer.read()"""
    def __init__(self, data, encoding='utf-8'):
        import io
        self.buffer = io.BytesIO(data)
        self.encoding = encoding        # what the locale / PYTHONIOENCODING would make of the text layer
        self.errors = 'strict'

    def read(self, *a):
        return self.buffer.read(*a).decode('utf-8', 'replace')

    def isatty(self):
        return False


def run_main(args, stdin=None, real_streams=False, stdin_encoding='utf-8'):
    """Runs main(['graphtage', *args]) with in-memory stdout/stderr (and standard input, if bytes are given). Never raises
    for exceptions escaping main(). With real_streams the two output streams are real files with file descriptors, which
    is what selects the Printer's line-buffered tqdm.write path that a terminal or a pipe gets (an in-memory stream takes
    the raw path)."""
    so, se, si = sys.stdout, sys.stderr, sys.stdin
    paths = None
    if real_streams:
        _counter[0] += 1
        paths = [os.path.join(scratch_dir(), f"std{k}{_counter[0]}.txt") for k in ('out', 'err')]
        out = open(paths[0], 'w', encoding='utf-8', newline='')
        err = open(paths[1], 'w', encoding='utf-8', newline='')
    else:
        out, err = common.Cap(), common.Cap()
    sys.stdout, sys.stderr = out, err
    if stdin is not None:
        sys.stdin = _Stdin(stdin, stdin_encoding)
    rc, exc, key = None, None, None
    import logging
    # main() configures logging with logging.basicConfig(stream=Printer(sys.stderr)), which is a no-op once the root logger
    # has a handler; a real command line is one process per invocation, so give every invocation a fresh root logger
    for h in list(logging.root.handlers):
        logging.root.removeHandler(h)
    try:
        try:
            rc = gmain.main(['graphtage'] + [str(a) for a in args])
        except SystemExit as e:
            rc = ('exit', e.code)
        except KeyboardInterrupt:
            raise
        except BaseException as e:      # noqa: B902 - anything escaping main() is the observation
            from .core import Bad, CaseTimeout, GtError
            if isinstance(e, (Bad, CaseTimeout, GtError)):
                raise
            exc = e
            frame = innermost_repo_frame(e.__traceback__) or 'outside-repo'
            key = f"{type(e).__name__}@{frame}"
    finally:
        sys.stdout, sys.stderr, sys.stdin = so, se, si
        for h in list(logging.root.handlers):
            logging.root.removeHandler(h)
        logging.root.setLevel(logging.WARNING)
        if real_streams:
            texts = []
            for f, pth in zip((out, err), paths):
                try:
                    if not f.closed:
                        f.close()
                except Exception:
                    pass
                with open(pth, encoding='utf-8', newline='', errors='replace') as g:
                    texts.append(g.read())
                cleanup_files(pth)
    if real_streams:
        return Result(rc, texts[0], texts[1], exc, key)
    return Result(rc, out.getvalue(), err.getvalue(), exc, key)


def run_subprocess(args, hashseed='0', timeout=120):
    env = dict(os.environ)
    env['PYTHONHASHSEED'] = str(hashseed)
    env['PYTHONPATH'] = REPO
    env['PYTHONDONTWRITEBYTECODE'] = '1'
    p = subprocess.run([sys.executable, '-m', 'graphtage'] + [str(a) for a in args], env=env, capture_output=True,
                       timeout=timeout, cwd=scratch_dir())
    return p.returncode, p.stdout, p.stderr


_counter = [0]


def write_file(text_or_bytes, ext, name=None):
    """Writes a scratch file with the given extension; returns its path."""
    _counter[0] += 1
    path = os.path.join(scratch_dir(), f"{name or 'f'}{_counter[0]}.{ext}")
    mode = 'wb' if isinstance(text_or_bytes, bytes) else 'w'
    kw = {} if mode == 'wb' else {'encoding': 'utf-8', 'newline': ''}
    with open(path, mode, **kw) as f:
        f.write(text_or_bytes)
    return path


def dump_doc(doc, fmt):
    """Serialises a plain document with an *independent* library for the given format. Returns str or bytes."""
    if fmt in ('json', 'json5'):
        return json.dumps(doc)
    if fmt == 'yaml':
        import yaml
        return yaml.safe_dump(doc, default_flow_style=None, allow_unicode=True)
    if fmt == 'plist':
        return plistlib.dumps(doc, sort_keys=False)
    raise ValueError(fmt)


def load_doc(data, fmt):
    """Independent parser for the given format (precondition checks)."""
    if isinstance(data, str):
        raw = data.encode('utf-8')
    else:
        raw = data
    if fmt == 'json':
        return json.loads(raw.decode('utf-8'))
    if fmt == 'json5':
        import json5
        return json5.loads(raw.decode('utf-8'))
    if fmt == 'yaml':
        import yaml
        return yaml.safe_load(raw)
    if fmt == 'plist':
        return plistlib.loads(raw)
    raise ValueError(fmt)


EXT = {'json': 'json', 'json5': 'json5', 'yaml': 'yml', 'plist': 'plist', 'xml': 'xml', 'html': 'html', 'csv': 'csv',
       'pickle': 'pkl'}


def cleanup_files(*paths):
    for p in paths:
        try:
            os.unlink(p)
        except OSError:
            pass
