"""Hypothesis strategies for documents and mutated pairs, and builders turning JSON-able case documents into
graphtage trees through the library's public builders (DESIGN 2.3)."""
import os
import tempfile
import xml.etree.ElementTree as ET

from hypothesis import strategies as st

from . import common
from .canon import MS, XML

import graphtage
from graphtage import json as gjson

STR_POOL = ['', 'a', 'b', 'ab', 'ba', 'abc', 'xyz', '1', '0', 'True', 'None', '1.0']
KEY_POOL = ['a', 'b', 'c', 'ab', 'k1', 'k2']
FLOAT_POOL = [0.0, -0.0, 0.5, 1.0, -2.5, 1e10]

scalars = st.one_of(
    st.none(), st.booleans(), st.integers(-3, 12), st.sampled_from([0, 1, 255, 256, -1, 2 ** 31, 10 ** 6]),
    st.sampled_from(STR_POOL), st.sampled_from(FLOAT_POOL))
keys = st.sampled_from(KEY_POOL)


def docs(max_leaves=10, max_width=4, leaf=scalars):
    return st.recursive(
        leaf,
        lambda ch: st.one_of(st.lists(ch, max_size=max_width), st.dictionaries(keys, ch, max_size=max_width)),
        max_leaves=max_leaves)


def mutate(a, D, leaf=scalars):
    """Strategy for a document derived from `a` by one to three structural edits applied in sequence (so
    prefixes/suffixes, duplicates, different-sized containers and several renamed keys in one mapping arise by
    construction, not by rejection)."""
    one = mutate_once(a, D, leaf)
    return st.one_of(
        one, one,
        one.flatmap(lambda b: mutate_once(b, D, leaf)),
        one.flatmap(lambda b: mutate_once(b, D, leaf)).flatmap(lambda c: mutate_once(c, D, leaf)))


def _sub_char(k, i):
    if not k:
        return 'z'
    j = i % len(k)
    return k[:j] + ('z' if k[j] != 'z' else 'y') + k[j + 1:]


def mutate_once(a, D, leaf=scalars):
    if isinstance(a, list):
        alts = [st.just(a), D,
                st.builds(lambda i, y: a[:i % (len(a) + 1)] + [y] + a[i % (len(a) + 1):], st.integers(0, 10), D)]
        if a:
            alts.append(st.builds(lambda i: a[:i % len(a)] + a[(i % len(a)) + 1:], st.integers(0, 10)))
            alts.append(st.builds(lambda i: a[:i % len(a)] + [a[i % len(a)]] + a[i % len(a):], st.integers(0, 10)))
            alts.append(st.tuples(*[mutate_once(x, D, leaf) for x in a]).map(list))
            alts.append(st.permutations(a).map(list))
        return st.one_of(*alts)
    if isinstance(a, dict):
        return st.one_of(
            st.just(a), D,
            st.fixed_dictionaries({k: mutate_once(v, D, leaf) for k, v in a.items()}),
            # the values of two keys swapped (pairing across keys becomes cheaper than editing both values)
            st.builds(lambda i, j: (lambda ks: {k: (a[ks[j % len(ks)]] if k == ks[i % len(ks)] else
                                                    (a[ks[i % len(ks)]] if k == ks[j % len(ks)] else v)) for k, v in a.items()}
                                    )(list(a)) if a else a, st.integers(0, 10), st.integers(0, 10)),
            # same-length rename: one character of one key substituted (a partial string edit of equal length)
            st.builds(lambda i, j: {(_sub_char(kk, j) if n == i % max(len(a), 1) and _sub_char(kk, j) not in a else kk): vv
                                    for n, (kk, vv) in enumerate(a.items())}, st.integers(0, 10), st.integers(0, 10)),
            st.builds(lambda k, v: {**a, k: v}, keys, D),
            st.builds(lambda k: {kk: vv for kk, vv in a.items() if kk != k}, keys),
            st.builds(lambda k, k2: {(k2 if kk == k else kk): vv for kk, vv in a.items()}, keys, keys),
            # rename a key to a *similar* key (partial string edit on the key) and, half of the time, change its value too
            st.builds(lambda i, suf, v, chg: {((kk + suf if suf != 'rev' else kk[::-1] + 'x') if j == i % max(len(a), 1) else kk):
                                              (v if (chg and j == i % max(len(a), 1)) else vv)
                                              for j, (kk, vv) in enumerate(a.items())},
                      st.integers(0, 10), st.sampled_from(['x', '2', 'rev']), D, st.booleans()))
    if isinstance(a, bool):
        # a boolean against the numbers Python calls equal to it (true / 1 / 1.0, false / 0 / 0.0): different values here
        return st.one_of(st.just(a), leaf, st.just(int(a)), st.just(float(a)))
    if isinstance(a, (int, float)) and a == a and abs(a) < 2 ** 53 and a == int(a):
        # the equal number of the other type (1 <-> 1.0): equal as a value, different as a node (size, spelling)
        alts = [st.just(a), leaf, st.just(float(a) if isinstance(a, int) else int(a))]
        if a in (0, 1):
            alts.append(st.just(bool(a)))
        return st.one_of(*alts)
    return st.one_of(st.just(a), leaf)


@st.composite
def mixed_size_list_cases(draw):
    """short lists of strings of different sizes that are prefixes / near-copies of each other, some shifted by one position:
    alignments in which a small element reappears next to a similar, larger neighbour"""
    pool = ['b', 'ba', 'bar', 'baz', 'a', 'ab', 'abcabc', 'q', 1, 1.0, 'barbar']
    L = st.lists(st.sampled_from(pool), min_size=1, max_size=4)
    a = draw(L)
    k = draw(st.integers(0, 3))
    if k == 0:
        b = draw(L)
    elif k == 1:
        b = [draw(st.sampled_from(pool))] + a
    elif k == 2:
        b = a[1:] + [draw(st.sampled_from(pool))]
    else:
        b = [draw(st.sampled_from(pool)) if draw(st.integers(0, 2)) == 0 else x for x in a] + draw(st.lists(st.sampled_from(pool), max_size=1))
    if draw(st.booleans()):
        a, b = {'l': a, 'k': 'v'}, {'l': b, 'k': 'v'}
    return {'family': 'json', 'a': a, 'b': b, 'ds': 'auto', 'le': 'on'}


@st.composite
def doc_pairs(draw, max_leaves=10, max_width=4, leaf=scalars):
    D = docs(max_leaves, max_width, leaf)
    a = draw(D)
    if draw(st.integers(0, 3)) == 0:
        b = draw(D)
    else:
        b = draw(mutate(a, D, leaf))
    return a, b


options = st.tuples(st.sampled_from(common.DS), st.sampled_from(common.LE))


@st.composite
def builder_cases(draw, max_leaves=10, max_width=4):
    """The same documents, built through the Builder framework (BasicBuilder / pydiff.build_tree) instead of json.build_tree."""
    a, b = draw(doc_pairs(max_leaves, max_width))
    ds, le = draw(options)
    return {'family': draw(st.sampled_from(['builder', 'pydiff'])), 'a': a, 'b': b, 'ds': ds, 'le': le}


@st.composite
def pickle_cases(draw, max_leaves=8):
    """documents pickled and loaded through the pickle file type (fickling AST -> Module / Assignment / ... data-class nodes)"""
    a, b = draw(doc_pairs(max_leaves, 3))
    ds, le = draw(options)
    return {'family': 'pickle', 'a': a, 'b': b, 'ds': ds, 'le': le}


@st.composite
def pyobj_cases(draw, max_leaves=8):
    """Custom Python objects (every mapping becomes an object with attributes) through pydiff.build_tree."""
    a, b = draw(doc_pairs(max_leaves, 3))
    ds, le = draw(options)
    return {'family': 'pyobj', 'a': a, 'b': b, 'ds': ds, 'le': le}


@st.composite
def json_cases(draw, max_leaves=10, max_width=4, leaf=scalars):
    a, b = draw(doc_pairs(max_leaves, max_width, leaf))
    ds, le = draw(options)
    return {'family': 'json', 'a': a, 'b': b, 'ds': ds, 'le': le}


# -- skewed sizes: a few long strings / long flat lists among small values, multi-character keys ---------------------------
# (bounds arithmetic such as clamps and surplus-element estimates only shows when sizes differ a lot)

BIG_KEYS = ['a', 'ba', 'e', 'fbc', 'ffa', 'name', 'value', 'k1', 'k2', 'id']
big_leaf = st.one_of(
    scalars, scalars,
    st.text(alphabet='abcxyz ', min_size=8, max_size=30),
    st.sampled_from(['lorem ipsum dolor sit amet', 'CONSECTETUR ADIPISCING ELIT', 'a' * 30, 'a' * 29 + 'b']))


def skewed_docs(max_leaves=8):
    long_list = st.lists(st.integers(0, 9), min_size=5, max_size=8)
    leaf = st.one_of(big_leaf, long_list)
    return st.recursive(
        leaf,
        lambda ch: st.one_of(st.lists(ch, max_size=3), st.dictionaries(st.sampled_from(BIG_KEYS), ch, max_size=4)),
        max_leaves=max_leaves)


@st.composite
def skewed_cases(draw, max_leaves=8):
    D = skewed_docs(max_leaves)
    a = draw(D)
    b = draw(st.one_of(D, mutate(a, D, big_leaf), mutate(a, D, big_leaf)))
    ds, le = draw(options)
    return {'family': 'json', 'a': a, 'b': b, 'ds': ds, 'le': le}


# -- padded elements: list elements with a large shared part and a small, loosely bounded difference -----------------
# (an element's remove/insert cost then lies far above the interval of its pairwise edit, so make_distinct() does not
#  tighten that edit as a side effect and whatever bounds it has when the cell is settled are what the list edit uses)

@st.composite
def padded_cases(draw):
    n = draw(st.integers(1, 3))
    small_list = st.lists(st.integers(0, 9), min_size=3, max_size=6)
    small_val = st.one_of(small_list, st.sampled_from(['abcdef', 'abcxef', 'hello world', 'hello wurld']), st.integers(0, 99))
    a, b = [], []
    for i in range(n):
        pad = draw(st.sampled_from(['a' * 30, 'lorem ipsum dolor sit amet', 'x' * 20]))
        k = draw(st.sampled_from(['k1', 'key', 'name', 'ab']))
        v = draw(small_val)
        ea = {k: v, 'pad': pad}
        how = draw(st.integers(0, 4))
        if how == 0:
            eb = dict(ea)
        else:
            k2 = k if how == 1 else draw(st.sampled_from([k + '2', k[:-1] + 'x', 'k2']))
            v2 = v
            if how != 2:
                if isinstance(v, list):
                    j = draw(st.integers(0, len(v) - 1))
                    v2 = v[:j] + [draw(st.integers(0, 9)) for _ in range(draw(st.integers(0, 2)))] + v[j + 1:]
                elif isinstance(v, str):
                    j = draw(st.integers(0, len(v) - 1))
                    v2 = v[:j] + 'Z' + v[j + 1:]
                else:
                    v2 = v + 1
            eb = {k2: v2, 'pad': pad}
        a.append(ea)
        b.append(eb)
    tail_a = draw(st.lists(st.sampled_from(['x', 'y', 1, 2]), max_size=2))
    tail_b = draw(st.one_of(st.just(tail_a), st.lists(st.sampled_from(['x', 'y', 1, 2]), max_size=2)))
    ds, le = draw(options)
    return {'family': 'json', 'a': a + tail_a, 'b': b + tail_b, 'ds': ds, 'le': le}


# -- mappings that grow or shrink by several unmatched keys, one of them carrying a much larger value ---------------------
# (surplus-element estimates and clamps in MultiSetEdit.bounds only matter here)

@st.composite
def growing_dict_cases(draw):
    small = st.one_of(st.integers(0, 9), st.sampled_from(['a', 'b', 'ab', 'x']), st.booleans())
    bigv = st.one_of(st.lists(st.integers(0, 9), min_size=6, max_size=9), st.text(alphabet='abcxyz', min_size=12, max_size=30))
    keypool = st.sampled_from(['ba', 'e', 'fbc', 'a', 'ffa', 'kk', 'name', 'zz9', 'q', 'key2'])
    base = draw(st.dictionaries(keypool, small, min_size=1, max_size=3))
    other = {}
    for k, v in base.items():
        how = draw(st.integers(0, 3))
        if how == 0:
            other[k] = v
        elif how == 1:
            other[draw(keypool)] = v
        elif how == 2:
            other[k] = draw(small)
    extra = draw(st.dictionaries(keypool, st.one_of(small, bigv), min_size=1, max_size=3))
    if not any(isinstance(v, (list, str)) and len(v) >= 6 for v in extra.values()):
        extra[draw(keypool)] = draw(bigv)
    for k, v in extra.items():
        other.setdefault(k, v)
    a, b = (base, other) if draw(st.booleans()) else (other, base)
    if draw(st.integers(0, 2)) == 0:
        a, b = [a, draw(small)], [b, draw(small)]
    ds, le = draw(options)
    return {'family': 'json', 'a': a, 'b': b, 'ds': ds, 'le': le}


# -- lists with several equal container siblings, of which one (often an earlier one) changes -----------------------------
# (anything keyed by node *equality* - memo tables, dict-built copies, index maps - conflates such siblings)

@st.composite
def dup_sibling_cases(draw):
    small = st.one_of(st.integers(0, 9), st.sampled_from(['a', 'ab', 'x']))
    cont = st.one_of(st.lists(small, min_size=1, max_size=3), st.dictionaries(keys, small, min_size=1, max_size=2),
                     st.lists(st.lists(small, min_size=1, max_size=2), min_size=1, max_size=2))
    c = draw(cont)
    n = draw(st.integers(2, 3))
    a = [c] * n
    extra = draw(st.lists(st.one_of(small, cont), max_size=2))
    pos = draw(st.integers(0, len(a)))
    a = a[:pos] + extra + a[pos:]
    b = list(a)
    idxs = [i for i, x in enumerate(a) if x == c]
    k = draw(st.integers(1, len(idxs)))
    for i in idxs[:k] if draw(st.booleans()) else idxs[-k:]:
        b[i] = draw(mutate_once(c, cont, small))
    if draw(st.integers(0, 3)) == 0:
        b = b + [draw(small)]
    wrap = draw(st.integers(0, 2))
    if wrap == 1:
        a, b = {'k1': a}, {'k1': b}
    elif wrap == 2:
        a, b = [a, 1], [b, 1]
    ds, le = draw(options)
    return {'family': 'json', 'a': a, 'b': b, 'ds': ds, 'le': le}


# -- nested lists (the shape C05's quiet-printer crash needs: lists nested >= 3 deep) -------------------------------

def nested_lists(leaf=scalars):
    inner = st.lists(leaf, max_size=4)
    mid = st.lists(st.one_of(inner, leaf, st.dictionaries(keys, leaf, max_size=2)), max_size=4)
    return st.lists(st.one_of(mid, inner, leaf), max_size=4)


@st.composite
def nested_list_cases(draw):
    D = nested_lists()
    a = draw(D)
    b = draw(st.one_of(D, mutate(a, D)))
    ds, le = draw(options)
    return {'family': 'json', 'a': a, 'b': b, 'ds': ds, 'le': le}


# -- lists of records: compound edits in the last cell of the list's alignment, many cost ties -----------------------------

RECORD_KEYS = ['alpha_key', 'beta_key', 'gamma_key']


@st.composite
def record_cases(draw):
    val = st.text(alphabet='defgh', min_size=1, max_size=7)
    rec = st.dictionaries(st.sampled_from(RECORD_KEYS), val, min_size=1, max_size=3)
    a = draw(st.lists(rec, min_size=1, max_size=3))
    b = [dict(r) for r in a]
    for _ in range(draw(st.integers(1, 4))):
        op = draw(st.integers(0, 4))
        if op == 0 or not b:
            b.insert(draw(st.integers(0, len(b))), draw(rec))
        elif op == 1 and len(b) > 1:
            del b[draw(st.integers(0, len(b) - 1))]
        elif op == 2:
            r = b[draw(st.integers(0, len(b) - 1))]
            for k in list(r):
                if draw(st.booleans()):
                    r[k] = draw(val)
        elif op == 3:
            b[-1] = draw(rec)
        else:
            r = b[draw(st.integers(0, len(b) - 1))]
            k = draw(st.sampled_from(RECORD_KEYS))
            if k in r and len(r) > 1:
                del r[k]
            else:
                r[k] = draw(val)
    ds, le = draw(options)
    return {'family': 'json', 'a': a, 'b': b, 'ds': ds if draw(st.booleans()) else 'auto', 'le': 'on'}


@st.composite
def record_variant_cases(draw):
    """two lists whose records are variants of one or two base records, mixed with tiny scalars: many alignments of nearly
    equal cost, compound edits in the last cell"""
    val = st.text(alphabet='defgh', min_size=1, max_size=7)
    bases = draw(st.lists(st.dictionaries(st.sampled_from(RECORD_KEYS), val, min_size=2, max_size=3), min_size=1, max_size=2))

    def variant():
        r = dict(draw(st.sampled_from(bases)))
        for k in list(r):
            if draw(st.integers(0, 2)) == 0:
                r[k] = draw(val)
        if draw(st.integers(0, 4)) == 0 and len(r) > 1:
            del r[draw(st.sampled_from(sorted(r)))]
        return r

    def lst():
        out = []
        for _ in range(draw(st.integers(1, 3))):
            out.append(draw(st.sampled_from([1, 'x', True])) if draw(st.integers(0, 2)) == 0 else variant())
        out.append(variant())
        return out
    return {'family': 'json', 'a': lst(), 'b': lst(), 'ds': 'auto', 'le': 'on'}


# -- YAML streams of several documents (read as the list of the documents) -----------------------------------------------------

@st.composite
def yaml_stream_cases(draw):
    small = st.one_of(st.none(), st.integers(0, 6), st.sampled_from(['a', 'b', 'ab']), st.booleans())
    docd = st.one_of(small, small, st.lists(small, max_size=3), st.dictionaries(st.sampled_from(['a', 'b', 'k1']), small, max_size=3))
    a = draw(st.lists(docd, min_size=2, max_size=4))
    k = draw(st.integers(0, 4))
    if k == 0:
        b = draw(st.lists(docd, min_size=2, max_size=4))
    elif k == 1:
        b = [draw(docd)] + a                       # a document prepended: alignment beats positional pairing
    elif k == 2:
        b = a[1:] + [draw(docd)] if len(a) > 2 else a + [draw(docd)]
    else:
        b = [draw(docd) if draw(st.integers(0, 2)) == 0 else x for x in a]
    ds, le = draw(options)
    return {'family': 'yamlstream', 'a': a, 'b': b, 'ds': ds, 'le': le}


# -- multisets: JSON lists are read as multisets ---------------------------------------------------------------------

@st.composite
def multiset_cases(draw, max_leaves=8):
    small = st.one_of(st.integers(0, 4), st.sampled_from(['a', 'b', 'ab', '']), st.none())
    D = st.recursive(small, lambda ch: st.lists(ch, max_size=5), max_leaves=max_leaves).filter(lambda x: isinstance(x, list))
    a = draw(D)
    b = draw(st.one_of(D, mutate(a, D, small)).filter(lambda x: isinstance(x, list)))
    return {'family': 'multiset', 'a': a, 'b': b, 'ds': draw(st.sampled_from(common.DS)), 'le': 'on'}


# -- XML ---------------------------------------------------------------------------------------------------------------

TAGS = ['a', 'b', 'item', 'x']
ATTR_KEYS = ['id', 'k', 'name']
TEXTS = [None, '', 't', 'text', ' t ', 'ab', ' ', '\n  ', 'a\u2028b', 'x\x85y']     # also white space only, and Unicode line breaks


def xml_docs(max_leaves=5):
    leaf = st.builds(lambda t, at, tx: {'tag': t, 'attrib': at, 'text': tx, 'children': []},
                     st.sampled_from(TAGS),
                     st.dictionaries(st.sampled_from(ATTR_KEYS), st.sampled_from(['', '1', 'v', 'ab']), max_size=2),
                     st.sampled_from(TEXTS))
    return st.recursive(
        leaf,
        lambda ch: st.builds(lambda t, at, tx, cs: {'tag': t, 'attrib': at, 'text': tx, 'children': cs},
                             st.sampled_from(TAGS),
                             st.dictionaries(st.sampled_from(ATTR_KEYS), st.sampled_from(['', '1', 'v']), max_size=2),
                             st.sampled_from(TEXTS), st.lists(ch, max_size=3)),
        max_leaves=max_leaves)


def mutate_xml(a, D):
    alts = [st.just(a), D,
            st.builds(lambda t: {**a, 'tag': t}, st.sampled_from(TAGS)),
            st.builds(lambda t: {**a, 'text': t}, st.sampled_from(TEXTS)),
            st.builds(lambda k, v: {**a, 'attrib': {**a['attrib'], k: v}}, st.sampled_from(ATTR_KEYS), st.sampled_from(['', '1', 'z'])),
            st.builds(lambda k: {**a, 'attrib': {kk: vv for kk, vv in a['attrib'].items() if kk != k}}, st.sampled_from(ATTR_KEYS)),
            # rename one attribute (value kept): 'id' -> 'ids', 'name' -> 'k' ...
            st.builds(lambda i, k2: {**a, 'attrib': {((k2 if k2 not in a['attrib'] else kk) if n == i % max(len(a['attrib']), 1) else kk): vv
                                                     for n, (kk, vv) in enumerate(a['attrib'].items())}},
                      st.integers(0, 5), st.sampled_from(ATTR_KEYS + ['ids', 'names', 'kk'])),
            st.builds(lambda i, c: {**a, 'children': a['children'][:i % (len(a['children']) + 1)] + [c] + a['children'][i % (len(a['children']) + 1):]},
                      st.integers(0, 5), D)]
    cs = a['children']
    if cs:
        alts.append(st.builds(lambda i: {**a, 'children': cs[:i % len(cs)] + cs[i % len(cs) + 1:]}, st.integers(0, 5)))
        alts.append(st.tuples(*[mutate_xml(c, D) for c in cs]).map(lambda t: {**a, 'children': list(t)}))
    return st.one_of(*alts)


@st.composite
def xml_cases(draw, max_leaves=5):
    D = xml_docs(max_leaves)
    a = draw(D)
    b = draw(st.one_of(D, mutate_xml(a, D), mutate_xml(a, D)))
    return {'family': 'xml', 'a': a, 'b': b, 'ds': draw(st.sampled_from(common.DS)), 'le': 'on'}


# -- CSV ---------------------------------------------------------------------------------------------------------------

CELLS = ['', 'a', 'b', 'ab', '1', 'x y', 'c,d']


@st.composite
def csv_cases(draw):
    row = st.lists(st.sampled_from(CELLS), min_size=1, max_size=4)
    T = st.lists(row, max_size=4)
    if draw(st.integers(0, 5)) == 0:
        # tables made of blank lines (rows without cells) and of rows holding one empty cell, in different numbers
        blank = st.lists(st.sampled_from([[], [], ['']]), max_size=4)
        a, b = draw(blank), draw(blank)
        return {'family': 'csv', 'a': a, 'b': b, 'ds': 'auto', 'le': draw(st.sampled_from(common.LE))}
    a = draw(T)
    b = draw(st.one_of(T, mutate(a, T, st.sampled_from(CELLS)).filter(
        lambda t: isinstance(t, list) and all(isinstance(r, list) and r and all(isinstance(c, str) for c in r) for r in t))))
    return {'family': 'csv', 'a': a, 'b': b, 'ds': 'auto', 'le': draw(st.sampled_from(common.LE))}


# -- plist wrapped ------------------------------------------------------------------------------------------------------

plist_scalars = st.one_of(st.booleans(), st.integers(-3, 12), st.sampled_from(['', 'a', 'ab', 'ba', '1']),
                          st.sampled_from([0.5, 1.0, -2.5]))


@st.composite
def plist_cases(draw, max_leaves=8):
    a, b = draw(doc_pairs(max_leaves, 4, plist_scalars))
    if draw(st.integers(0, 4)) == 0:
        # a property list whose root is a single scalar: the wrapper's edit then holds a leaf edit directly
        words = st.sampled_from(['kitten', 'sitting', 'abc', 'abd', 'xyzxyz', 'a', '', 'mitten'])
        a, b = draw(st.one_of(words, st.integers(0, 3), st.booleans())), draw(st.one_of(words, words, st.integers(0, 3)))
    ds, le = draw(options)
    return {'family': 'plist', 'a': a, 'b': b, 'ds': ds, 'le': le}


# -- builders ----------------------------------------------------------------------------------------------------------

class Thing:
    """custom object for the pydiff entry point: every mapping of a case document becomes one of these"""


class Other:
    pass


def to_pyobj(doc):
    if isinstance(doc, dict):
        o = Other() if 'k2' in doc else Thing()
        for k, v in doc.items():
            setattr(o, k if k.isidentifier() else 'attr_' + ''.join(c if c.isalnum() else '_' for c in k), to_pyobj(v))
        return o
    if isinstance(doc, list):
        return [to_pyobj(x) for x in doc]
    return doc


def build_multiset(doc, opts):
    if isinstance(doc, list):
        return graphtage.MultiSetNode([build_multiset(x, opts) for x in doc], auto_match_keys=opts.auto_match_keys)
    return gjson.build_tree(doc, opts)


def to_et(doc):
    el = ET.Element(doc['tag'], dict(doc['attrib']))
    if doc['text'] is not None:
        el.text = doc['text']
    for c in doc['children']:
        el.append(to_et(c))
    return el


def xml_plain(doc):
    # build_tree drops falsy text; XMLElement compares text modulo surrounding whitespace
    return XML(doc['tag'], doc['attrib'], doc['text'], [xml_plain(c) for c in doc['children']])


def write_csv(rows, path):
    import csv
    with open(path, 'w', newline='') as f:
        w = csv.writer(f)
        for r in rows:
            w.writerow(r)


def expand(doc):
    """{'__repeat__': [s, n]} stands for the string s * n (keeps cases with very long strings small on disk)"""
    if isinstance(doc, dict):
        if set(doc) == {'__repeat__'}:
            return doc['__repeat__'][0] * doc['__repeat__'][1]
        return {k: expand(v) for k, v in doc.items()}
    if isinstance(doc, list):
        return [expand(x) for x in doc]
    return doc


@st.composite
def huge_leaf_cases(draw):
    """lists in which a few very long strings (20-40 thousand characters) are inserted or removed: total costs pass 2**16
    while every single sub-edit stays cheap to compute (the long strings meet only short ones or nothing)"""
    small = st.one_of(st.integers(0, 9), st.sampled_from(['x', 'y', 'ab']))
    base = draw(st.lists(small, min_size=0, max_size=3))
    k = draw(st.integers(2, 4))
    longs = [{'__repeat__': [draw(st.sampled_from(['a', 'b', 'xy'])), draw(st.integers(20000, 40000))]} for _ in range(k)]
    # the long strings form one contiguous block between an equal prefix and an equal suffix, so that after the shared
    # prefix/suffix is trimmed they are only removed or inserted (a long string edited against a short one is legal but
    # takes minutes: the per-character heap work is quadratic)
    i = draw(st.integers(0, len(base)))
    big = base[:i] + longs + base[i:]
    other = list(base)
    a, b = (big, other) if draw(st.booleans()) else (other, big)
    wrap = draw(st.integers(0, 2))
    if wrap == 1:
        a, b = {'k1': a, 'a': 1}, {'k1': b, 'a': 1}
    elif wrap == 2:
        a, b = {'k1': a}, {'k2': b}
    ds = draw(st.sampled_from(common.DS))
    return {'family': 'json', 'a': a, 'b': b, 'ds': ds, 'le': 'on'}      # positional pairing would edit long against short strings


def build(case, which, opts=None):
    """Builds the graphtage tree for case['a'] or case['b'] through the public builder of the case's family."""
    doc = expand(case[which])
    if opts is None:
        opts = common.build_options(case.get('ds', 'auto'), case.get('le', 'on'), api_none=bool(case.get('api_none')))
    fam = case.get('family', 'json')
    if fam == 'json':
        return gjson.build_tree(doc, opts)
    if fam == 'builder':
        from graphtage.builder import BasicBuilder
        return BasicBuilder(opts).build_tree(doc)
    if fam == 'pydiff':
        from graphtage import pydiff
        return pydiff.build_tree(doc, opts)
    if fam == 'pyobj':
        from graphtage import pydiff
        return pydiff.build_tree(to_pyobj(doc), opts)
    if fam == 'pickle':
        import pickle
        fd, path = tempfile.mkstemp(suffix='.pkl', dir=scratch_dir())
        try:
            with os.fdopen(fd, 'wb') as f:
                f.write(pickle.dumps(doc))
            return graphtage.FILETYPES_BY_TYPENAME['pickle'].build_tree(path, opts)
        finally:
            os.unlink(path)
    if fam == 'multiset':
        return build_multiset(doc, opts)
    if fam == 'yamlstream':
        import yaml
        fd, path = tempfile.mkstemp(suffix='.yml', dir=scratch_dir())
        try:
            with os.fdopen(fd, 'w') as f:
                yaml.safe_dump_all(doc, f, explicit_start=True)
            return graphtage.FILETYPES_BY_TYPENAME['yaml'].build_tree(path, opts)
        finally:
            os.unlink(path)
    if fam == 'xml':
        from graphtage import xml as gxml
        return gxml.build_tree(to_et(doc), opts)
    if fam == 'csv':
        from graphtage import csv as gcsv
        fd, path = tempfile.mkstemp(suffix='.csv', dir=scratch_dir())
        os.close(fd)
        try:
            write_csv(doc, path)
            return gcsv.build_tree(path, opts)
        finally:
            os.unlink(path)
    if fam == 'plist':
        from graphtage.plist import PLISTNode
        return PLISTNode(gjson.build_tree(doc, opts))
    if fam == 'plistjson':
        # two file types on the two sides: a property list compared with a plain JSON tree
        from graphtage.plist import PLISTNode
        return PLISTNode(gjson.build_tree(doc, opts)) if which == 'a' else gjson.build_tree(doc, opts)
    raise ValueError(fam)


def expected_plain(case, which):
    """The plain document (with MS / XML markers) the tree of case[which] must represent."""
    doc = expand(case[which])
    fam = case.get('family', 'json')
    if fam == 'multiset':
        def ms(d):
            return MS([ms(x) for x in d]) if isinstance(d, list) else d
        return ms(doc)
    if fam == 'xml':
        return xml_plain(doc)
    return doc


def scratch_dir():
    from .core import scratch_dir as sd
    return sd()


def valid_case(case):
    """Is this (possibly shrunk) case inside the input domain of its family?"""
    fam = case.get('family', 'json')
    a, b = case.get('a'), case.get('b')
    if case.get('ds', 'auto') not in common.DS or case.get('le', 'on') not in common.LE:
        return False
    if fam == 'multiset':
        return isinstance(a, list) and isinstance(b, list)
    if fam == 'xml':
        def ok(d):
            return (isinstance(d, dict) and set(d) == {'tag', 'attrib', 'text', 'children'} and isinstance(d['tag'], str)
                    and d['tag'] != '' and d['tag'].isalnum() and d['tag'][0].isalpha()
                    and isinstance(d['attrib'], dict) and all(isinstance(v, str) for v in d['attrib'].values())
                    and all(k.isalnum() and k[0].isalpha() for k in d['attrib'])
                    and (d['text'] is None or isinstance(d['text'], str))
                    and isinstance(d['children'], list) and all(ok(c) for c in d['children']))
        return ok(a) and ok(b)
    if fam == 'csv':
        def ok(t):
            return isinstance(t, list) and all(isinstance(r, list) and all(isinstance(c, str) for c in r) for r in t)
        return ok(a) and ok(b)
    if fam == 'yamlstream':
        def ok(t):
            try:
                import yaml
                return isinstance(t, list) and len(t) >= 2 and list(yaml.safe_load_all(yaml.safe_dump_all(t, explicit_start=True))) == t
            except Exception:
                return False
        return ok(a) and ok(b)
    if fam in ('plist', 'plistjson'):
        def ok(d):
            if d is None:
                return False
            if isinstance(d, list):
                return all(ok(x) for x in d)
            if isinstance(d, dict):
                return all(ok(x) for x in d.values())
            return True
        return ok(a) and ok(b)
    return True
