"""Child interpreter for C07's hash-seed sub-check: replays cases through main() in-process and prints digests.
usage: python -m vf.c07child CASEFILE [forward|reverse|rotate|interleave]   (PYTHONHASHSEED is set by the parent)"""
import hashlib
import json
import os
import sys


def main():
    sys.setrecursionlimit(5000)
    real_out = sys.stdout
    sys.stderr = open(os.devnull, 'w')
    from vf import cli
    from vf.props import c07
    cases = json.load(open(sys.argv[1]))
    # each child may replay the batch in a different order: anything that depends on what the process did before
    # (memo tables, registries, mutated defaults) then shows up as a difference between children
    order = list(range(len(cases)))
    mode = sys.argv[2] if len(sys.argv) > 2 else 'forward'
    if mode == 'reverse':
        order.reverse()
    elif mode == 'rotate':
        order = order[len(order) // 2:] + order[:len(order) // 2]
    elif mode == 'interleave':
        order = order[::2] + order[1::2]
    res = [None] * len(cases)
    for i in order:
        r = c07.run_cli_case(cases[i])
        res[i] = [repr(r.rc), hashlib.sha256(r.out.encode('utf-8', 'surrogatepass')).hexdigest()[:16], r.exc_key, len(r.out)]
    from vf import core
    core.cleanup_scratch()
    real_out.write(json.dumps(res))
    real_out.flush()


if __name__ == '__main__':
    main()
    os._exit(0)
