"""Independent walker over edit scripts: structure, reconstruction, costs, pairing signature (C01/C03/C05/C08/C10).

It never uses graphtage's own traversal helpers (explode_edits, get_all_edits, dfs) and compares elements by the
canonical `plain` value, not by node equality.
"""
from collections import Counter

from . import common  # noqa: F401
from .canon import plain

from graphtage import (CompoundEdit, Insert, KeyValuePairNode, ListNode, MappingNode, Match, MultiSetNode, Remove,
                       Replace)
from graphtage.edits import EditCollection
from graphtage.graphtage import KeyValuePairEdit, StringEdit
from graphtage.plist import PLISTNode
from graphtage.xml import XMLElement, XMLElementEdit


class Rec:
    __slots__ = ('edit', 'kind', 'f', 't', 'cost', 'subs', 'pf', 'pt', 'ordered')

    def __init__(self, edit, kind, f=None, t=None):
        self.edit, self.kind, self.f, self.t = edit, kind, f, t
        self.cost = None
        self.subs = []
        self.pf = self.pt = None
        self.ordered = None

    def all(self):
        yield self
        for s in self.subs:
            yield from s.all()


class Problems(list):
    def add(self, category, key, detail=''):
        self.append((category, key, str(detail)[:500]))

    def of(self, *categories):
        return [(k, d) for c, k, d in self if c in categories]


def _cost(e, probs):
    b = e.bounds()
    if not b.definitive():
        probs.add('cost', f'not-definitive:{type(e).__name__}', f"{type(e).__name__} bounds {b} after full refinement")
        return None
    return b.upper_bound


def _name(e):
    return type(e).__name__


def walk(e, probs):
    """Walks edit `e` (already fully refined from the root). Returns a Rec with reconstructed plain values."""
    if isinstance(e, Remove):
        r = Rec(e, 'remove', e.from_node, None)
        r.cost = _cost(e, probs)
        r.pf = plain(e.from_node)
        return r
    if isinstance(e, Insert):
        r = Rec(e, 'insert', None, e.to_insert)
        r.cost = _cost(e, probs)
        r.pt = plain(e.to_insert)
        return r
    f, t = e.from_node, e.to_node
    if isinstance(e, (Match, Replace)):
        r = Rec(e, 'match' if isinstance(e, Match) else 'replace', f, t)
        r.cost = _cost(e, probs)
        r.pf, r.pt = plain(f), plain(t)
        return r
    if isinstance(e, StringEdit):
        r = Rec(e, 'string', f, t)
        r.cost = _cost(e, probs)
        fs, ts, sc = [], [], 0
        for s in e.edit_distance.edits():
            c = _cost(s, probs)
            sc = None if (sc is None or c is None) else sc + c
            if isinstance(s, Match):
                fs.append(s.from_node.object)
                ts.append(s.to_node.object)
            elif isinstance(s, Remove):
                fs.append(s.from_node.object)
            elif isinstance(s, Insert):
                ts.append(s.to_insert.object)
            else:
                probs.add('structure', 'string-subedit', repr(s))
        try:
            r.pf, r.pt = ('str', ''.join(fs)), ('str', ''.join(ts))
        except TypeError:
            r.pf, r.pt = ('str', repr(fs)), ('str', repr(ts))
        if r.pf != plain(f):
            probs.add('structure', 'string-from-projection', f"characters kept+removed spell {r.pf[1]!r}, source is {f.object!r}")
        if r.pt != plain(t):
            probs.add('structure', 'string-to-projection', f"characters kept+inserted spell {r.pt[1]!r}, target is {t.object!r}")
        if sc is not None and r.cost is not None and sc != r.cost:
            probs.add('cost', 'cost-sum:StringEdit', f"StringEdit cost {r.cost} != sum over characters {sc}")
        return r
    if not isinstance(e, CompoundEdit):
        # unknown atomic edit: treat as a replacement of f by t
        r = Rec(e, 'atomic:' + _name(e), f, t)
        r.cost = _cost(e, probs)
        r.pf, r.pt = plain(f), plain(t)
        return r

    subs = list(e.edits())
    if isinstance(e, KeyValuePairEdit) or (isinstance(f, KeyValuePairNode) and isinstance(t, KeyValuePairNode)):
        r = Rec(e, 'kvp', f, t)
        r.cost = _cost(e, probs)
        if len(subs) != 2:
            probs.add('structure', 'kvp-arity', f"{len(subs)} sub-edits")
            r.pf, r.pt = plain(f), plain(t)
            return r
        k, v = walk(subs[0], probs), walk(subs[1], probs)
        r.subs = [k, v]
        if k.f is not f.key or k.t is not t.key:
            probs.add('structure', 'kvp-key-endpoints', 'key sub-edit does not pair the two keys')
        if v.f is not f.value or v.t is not t.value:
            probs.add('structure', 'kvp-value-endpoints', 'value sub-edit does not pair the two values')
        r.pf, r.pt = ('kvp', k.pf, v.pf), ('kvp', k.pt, v.pt)
        _sum(r, probs)
        return r
    if isinstance(e, XMLElementEdit) or (isinstance(f, XMLElement) and isinstance(t, XMLElement)):
        return _walk_xml(e, f, t, subs, probs)
    if isinstance(f, PLISTNode) and isinstance(t, PLISTNode):
        r = Rec(e, 'plist', f, t)
        r.cost = _cost(e, probs)
        rs = [walk(s, probs) for s in subs]
        r.subs = rs
        roots = [x for x in rs if x.f is f.root]
        if len(roots) != 1 or roots[0].t is not t.root:
            probs.add('structure', 'plist-root', 'no single sub-edit pairs the two plist roots')
            r.pf, r.pt = plain(f), plain(t)
        else:
            r.pf, r.pt = roots[0].pf, roots[0].pt
        for x in rs:
            if x.f is f and x.kind == 'match':
                x.pf = x.pt = None      # the wrapper's own zero-cost marker
        _sum(r, probs)
        return r
    if isinstance(f, (ListNode, MultiSetNode, MappingNode)) and isinstance(t, (ListNode, MultiSetNode, MappingNode)):
        return _walk_container(e, f, t, subs, probs)
    # generic component-wise compound edit (PyObjEdit, DataClassEdit, ...): sub-edit i pairs child i with child i
    r = Rec(e, 'compound:' + _name(e), f, t)
    r.cost = _cost(e, probs)
    r.subs = [walk(s, probs) for s in subs]
    fc, tc = list(f.children()), list(t.children())
    if len(r.subs) == len(fc) == len(tc) and all(x.kind not in ('remove', 'insert') for x in r.subs):
        for i, x in enumerate(r.subs):
            if x.f is not fc[i] or x.t is not tc[i]:
                probs.add('structure', f'component-endpoints:{_name(e)}', f"sub-edit {i} does not pair component {i} of the two nodes")
                break
        pf, pt = plain(f), plain(t)
        r.pf = (pf[0], pf[1], tuple(x.pf for x in r.subs)) if pf[0] == 'node' else pf
        r.pt = (pt[0], pt[1], tuple(x.pt for x in r.subs)) if pt[0] == 'node' else pt
    else:
        probs.add('structure', f'component-arity:{_name(e)}', f"{len(r.subs)} sub-edits for nodes with {len(fc)} and {len(tc)} components")
        r.pf, r.pt = plain(f), plain(t)
    _sum(r, probs)
    return r


def _sum(r, probs):
    if r.cost is None:
        return
    sc = 0
    for s in r.subs:
        if s.cost is None:
            return
        sc += s.cost
    if sc != r.cost:
        probs.add('cost', f'cost-sum:{_name(r.edit)}',
                  f"{_name(r.edit)} reports {r.cost} but its {len(r.subs)} listed sub-edits sum to {sc} "
                  f"({[(s.kind, s.cost) for s in r.subs][:8]})")


def _walk_container(e, f, t, subs, probs):
    ordered = isinstance(f, ListNode) and isinstance(t, ListNode)
    r = Rec(e, 'ordered' if ordered else 'unordered', f, t)
    r.ordered = ordered
    r.cost = _cost(e, probs)
    fro, to = [], []
    fobj, tobj = [], []
    for s in subs:
        x = walk(s, probs)
        r.subs.append(x)
        if x.kind != 'insert':
            fobj.append(x.f)
        if x.kind != 'remove':
            tobj.append(x.t)
        if x.kind == 'remove':
            if s.to_node is not f:
                probs.add('structure', 'remove-from', f"{_name(e)}: Remove.remove_from is not the container being edited")
            fro.append(x.pf)
        elif x.kind == 'insert':
            if s.insert_into is not f:
                probs.add('structure', 'insert-into', f"{_name(e)}: Insert.insert_into is not the container being edited")
            to.append(x.pt)
        else:
            fro.append(x.pf)
            to.append(x.pt)
    fc = [plain(c) for c in f.children()]
    tc = [plain(c) for c in t.children()]
    tag = 'list' if ordered else 'set'
    if ordered:
        if fro != fc:
            probs.add('structure', f'{tag}-from-projection:{_name(e)}',
                      f"kept/changed/removed elements {_short(fro)} != elements of the first list {_short(fc)}")
        if to != tc:
            probs.add('structure', f'{tag}-to-projection:{_name(e)}',
                      f"kept/changed/inserted elements {_short(to)} != elements of the second list {_short(tc)}")
        r.pf, r.pt = ('list', tuple(fro)), ('list', tuple(to))
        # by identity too: equal-valued siblings are distinct elements, each accounted for exactly once
        if fro == fc and to == tc:
            fch, tch = list(f.children()), list(t.children())
            if len(fobj) == len(fch) and any(x is not y for x, y in zip(fobj, fch)):
                i = next(i for i, (x, y) in enumerate(zip(fobj, fch)) if x is not y)
                probs.add('structure', f'list-from-identity:{_name(e)}',
                          f"sub-edit for position {i} of the first list names a different (equal-valued) element object; an "
                          f"element is accounted for twice and another never: {_short(fc)}")
            elif len(tobj) == len(tch) and any(x is not y for x, y in zip(tobj, tch)):
                i = next(i for i, (x, y) in enumerate(zip(tobj, tch)) if x is not y)
                probs.add('structure', f'list-to-identity:{_name(e)}',
                          f"sub-edit for position {i} of the second list names a different (equal-valued) element object: {_short(tc)}")
    else:
        if Counter(fro) != Counter(fc):
            probs.add('structure', f'{tag}-from-projection:{_name(e)}',
                      f"kept/changed/removed items {_short(sorted(fro, key=repr))} != items of the first container {_short(sorted(fc, key=repr))}")
        if Counter(to) != Counter(tc):
            probs.add('structure', f'{tag}-to-projection:{_name(e)}',
                      f"kept/changed/inserted items {_short(sorted(to, key=repr))} != items of the second container {_short(sorted(tc, key=repr))}")
        r.pf = ('set', tuple(sorted(fro, key=repr)))
        r.pt = ('set', tuple(sorted(to, key=repr)))
    _sum(r, probs)
    return r


def _walk_xml(e, f, t, subs, probs):
    r = Rec(e, 'xml', f, t)
    r.cost = _cost(e, probs)
    rs = [walk(s, probs) for s in subs]
    r.subs = rs
    parts = {}
    for x in rs:
        if x.kind == 'insert':
            if x.t is t.text and f.text is None and x.edit.insert_into is f:
                parts['text'] = (('str', ''), ('str', t.text.object.strip()))
            else:
                probs.add('structure', 'xml-component', 'stray Insert in element edit')
        elif x.kind == 'remove':
            if x.f is f.text and t.text is None and x.edit.to_node is f:
                parts['text'] = (('str', f.text.object.strip()), ('str', ''))
            else:
                probs.add('structure', 'xml-component', 'stray Remove in element edit')
        elif x.f is f.tag and x.t is t.tag:
            parts['tag'] = (x.pf, x.pt)
        elif x.f is f.attrib and x.t is t.attrib:
            parts['attrib'] = (x.pf, x.pt)
        elif f.text is not None and x.f is f.text and x.t is t.text:
            parts['text'] = (('str', x.pf[1].strip()), ('str', x.pt[1].strip())) if x.pf[0] == 'str' and x.pt[0] == 'str' else (x.pf, x.pt)
        elif x.f is f._children and x.t is t._children:
            parts['children'] = (x.pf, x.pt)
        else:
            probs.add('structure', 'xml-component', f"sub-edit {_name(x.edit)} pairs no corresponding components")
    need = ['tag', 'attrib', 'children'] + (['text'] if (f.text is not None or t.text is not None) else [])
    miss = [n for n in need if n not in parts]
    if miss or len(rs) != len(need):
        probs.add('structure', 'xml-components-missing', f"components without exactly one sub-edit: {miss}, {len(rs)} sub-edits")
        r.pf, r.pt = plain(f), plain(t)
    else:
        tx = parts.get('text', (('str', ''), ('str', '')))
        r.pf = ('xml', parts['tag'][0], parts['attrib'][0], tx[0], parts['children'][0])
        r.pt = ('xml', parts['tag'][1], parts['attrib'][1], tx[1], parts['children'][1])
    _sum(r, probs)
    return r


def _short(x, n=300):
    s = repr(x)
    return s if len(s) <= n else s[:n] + '...'


def signature(r):
    """Order-insensitive (inside unordered containers) description of a script: who is paired / removed / inserted,
    with costs. Two runs that yield the same signature made the same decisions."""
    subs = [signature(s) for s in r.subs]
    if r.kind in ('unordered', 'xml', 'plist', 'kvp') or r.kind.startswith('compound'):
        subs = sorted(subs, key=repr)
    return (r.kind, r.pf, r.pt, r.cost, tuple(subs))


def count_kinds(r, c=None):
    c = Counter() if c is None else c
    for x in r.all():
        c[x.kind] += 1
    return c
