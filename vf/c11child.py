"""Child interpreter for C11's "assertions stripped" sub-check: runs C11's oracle over a batch of string pairs under the
interpreter flags the parent chose (python -O) and prints the failures.
usage: python -O -m vf.c11child CASEFILE"""
import json
import os
import sys


def main():
    real_out = sys.stdout
    sys.stderr = open(os.devnull, 'w')
    from vf import common
    from vf.props import c11
    cases = json.load(open(sys.argv[1]))
    res = []
    for case in cases:
        common.LOOPS.reset(20000000)
        common.WIDEN.reset()
        try:
            out = c11.check(case)
            res.append([[k, d] for k, d in out.failures])
        except BaseException as e:        # noqa: B902
            res.append([['raised:' + type(e).__name__, str(e)[:200]]])
    from vf import core
    core.cleanup_scratch()
    real_out.write(json.dumps({'optimize': sys.flags.optimize, 'results': res}))
    real_out.flush()


if __name__ == '__main__':
    main()
    os._exit(0)
