"""C04 monitor: observes every tighten_bounds() of every class under graphtage.* from outside (DESIGN 3, C04).

Wrapping happens at import time in the harness process, by reflection, so new Bounded classes are picked up.
"""
import importlib
import inspect
import pkgutil

from . import common  # noqa: F401
import graphtage


class Monitor:
    def __init__(self):
        self.active = False
        self.objs = {}          # id -> [obj, [(before, result, after, valid_after), ...]]
        self.calls = 0
        self.wrapped_classes = []
        self.limit = common.TIGHTEN_LIMIT
        self._busy = False

    def reset(self):
        self.objs = {}
        self.calls = 0

    def log(self, obj, before, r, after, valid_after):
        ent = self.objs.get(id(obj))
        if ent is None:
            ent = self.objs[id(obj)] = [obj, []]
        ent[1].append((before, r, after, valid_after))


MON = Monitor()


def _rng(b):
    return (b.lower_bound, b.upper_bound)


def _is_valid(obj):
    try:
        v = getattr(obj, 'valid', True)
    except Exception:
        return True
    return bool(v)


def _wrap(cls):
    orig = cls.__dict__['tighten_bounds']
    if getattr(orig, '_vf_wrapped', False):
        return

    def tighten_bounds(self, *a, **k):
        if not MON.active:
            return orig(self, *a, **k)
        MON.calls += 1
        if MON.calls > MON.limit:
            from .core import Bad
            MON.active = False
            raise Bad('nontermination:call-budget', f"more than {MON.limit} tighten_bounds() calls in one operation")
        try:
            before = _rng(self.bounds())
        except Exception:
            before = None
        r = orig(self, *a, **k)
        if before is not None:
            valid_after = _is_valid(self)
            try:
                after = _rng(self.bounds())
            except Exception:
                after = None
            if after is not None:
                MON.log(self, before, r, after, valid_after)
        return r

    tighten_bounds._vf_wrapped = True
    tighten_bounds._vf_orig = orig
    tighten_bounds.__wrapped__ = orig
    cls.tighten_bounds = tighten_bounds


def install():
    """Wraps tighten_bounds on every class under graphtage.* that defines it. Returns the class names."""
    if MON.wrapped_classes:
        return MON.wrapped_classes
    names = []
    seen = set()
    for mi in pkgutil.walk_packages(graphtage.__path__, 'graphtage.'):
        if mi.name.endswith('__main__'):
            continue
        try:
            m = importlib.import_module(mi.name)
        except Exception:
            continue
        for _, cls in inspect.getmembers(m, inspect.isclass):
            if cls in seen or not cls.__module__.startswith('graphtage'):
                continue
            seen.add(cls)
            f = cls.__dict__.get('tighten_bounds')
            if f is None or not callable(f):
                continue
            if getattr(f, '__isabstractmethod__', False):
                continue
            if cls.__name__ in ('Bounded', 'Edit'):
                continue
            _wrap(cls)
            names.append(f"{cls.__module__.split('.')[-1]}.{cls.__name__}")
    MON.wrapped_classes = sorted(names)
    return MON.wrapped_classes


def wrap_class(cls):
    """For harness-defined Bounded classes (synthetic items) that should be monitored too."""
    _wrap(cls)


def finite(x):
    return isinstance(x, int)


def analyse(final_of, fail):
    """Applies the step oracle to everything logged since reset(). `final_of(obj)` refines obj to the end (monitor
    off) and returns its final (lo, hi); `fail(key, detail)` records a failure."""
    stats = {'objects': 0, 'steps': 0, 'progress_steps_max_nested': 0}
    for oid, (obj, steps) in list(MON.objs.items()):
        cname = type(obj).__name__
        stats['objects'] += 1
        stats['steps'] += len(steps)
        exposed = []
        progress = 0
        dead = False
        for before, r, after, valid_after in steps:
            if not valid_after:
                dead = True         # an invalidated edit's bounds are documented to be unbounded
                break
            exposed.append(before)
            exposed.append(after)
            lo0, hi0 = before
            lo1, hi1 = after
            if (finite(lo0) and finite(lo1) and lo1 < lo0) or (finite(hi0) and finite(hi1) and hi1 > hi0) \
                    or (finite(lo0) and not finite(lo1)) or (finite(hi0) and not finite(hi1)):
                fail(f'widened:{cname}', f"{cname}.tighten_bounds() took [{lo0}, {hi0}] to [{lo1}, {hi1}]")
            if r and after == before:
                fail(f'progress-without-change:{cname}', f"{cname}.tighten_bounds() returned True but bounds stayed [{lo0}, {hi0}]")
            if r:
                progress += 1
            if not r and not (finite(lo1) and lo1 == hi1):
                fail(f'no-progress-not-single-valued:{cname}',
                     f"{cname}.tighten_bounds() returned False with bounds [{lo1}, {hi1}] (before: [{lo0}, {hi0}])")
        if dead or not _is_valid(obj):
            continue
        stats['progress_steps_max_nested'] = max(stats['progress_steps_max_nested'], progress)
        fin = final_of(obj)
        if fin is None:
            continue
        flo, fhi = fin
        if not (finite(flo) and flo == fhi):
            fail(f'never-single-valued:{cname}', f"{cname} ends at [{flo}, {fhi}] when refined until no progress")
            continue
        for lo, hi in exposed:
            if (finite(lo) and flo < lo) or (finite(hi) and flo > hi):
                fail(f'unsound:{cname}', f"{cname} exposed [{lo}, {hi}] but its final cost is {flo}")
                break
        first = next(((lo, hi) for lo, hi in exposed if finite(lo) and finite(hi)), None)
        if first is not None and progress > (first[1] - first[0]) + 1:
            fail(f'more-progress-steps-than-width:{cname}',
                 f"{cname}: {progress} steps reported progress on an interval of width {first[1] - first[0]}")
    return stats
