"""Coverage-guided supplement for C19 (thorough tier): atheris / libFuzzer over expression strings with C19's oracle in
the target. usage: python -m vf.fuzz_c19 <out.json> <corpus-dir> <runs> <seed>
Writes the failing expressions (at most 50, deduplicated by failure key) to out.json and exits 0."""
import json
import os
import sys


def main():
    out_path, corpus, runs, seed = sys.argv[1], sys.argv[2], int(sys.argv[3]), int(sys.argv[4])
    sys.setrecursionlimit(3000)
    import atheris
    with atheris.instrument_imports(include=['graphtage.expressions']):
        import graphtage.expressions  # noqa: F401
    from vf import common
    from vf.props import c19
    found = {}
    stats = {'execs': 0, 'parsed_ok': 0}

    def one(data):
        stats['execs'] += 1
        if stats['execs'] % 1000 == 0 or stats['execs'] >= runs - 1:
            with open(out_path, 'w') as f:       # libFuzzer ends the process itself: atexit / finally do not run
                json.dump({'found': found, 'stats': stats}, f)
        try:
            s = data.decode('utf-8')
        except UnicodeDecodeError:
            return
        if len(s) > 200:
            return
        # the normal path (core.run_check) resets the per-case budgets; here it has to be done by hand, otherwise the
        # loop budget is spent by the campaign as a whole and libFuzzer stops at the resulting exception
        common.LOOPS.reset(20000000)
        common.WIDEN.reset() if hasattr(common.WIDEN, 'reset') else None
        try:
            out = c19.check({'expr': s})
        except RecursionError:
            return
        except Exception as e:      # budget hits and anything else: report through the normal path, keep fuzzing
            key = f'raised:{type(e).__name__}:{str(e)[:40]}'
            if key not in found and len(found) < 50:
                found[key] = {'expr': s, 'detail': str(e)[:200]}
            return
        if 'evaluated' in out.labels:
            stats['parsed_ok'] += 1
        for key, detail in out.failures:
            if key not in found and len(found) < 50:
                found[key] = {'expr': s, 'detail': detail}
                with open(out_path, 'w') as f:
                    json.dump({'found': found, 'stats': stats}, f)

    import atexit

    def flush():
        with open(out_path, 'w') as f:
            json.dump({'found': found, 'stats': stats}, f)
    sys.stderr = open(os.devnull, 'w')
    atheris.Setup([sys.argv[0], corpus, f'-runs={runs}', f'-seed={seed or 1}', '-max_len=120', '-verbosity=0', '-print_final_stats=0',
                   f'-artifact_prefix={os.path.dirname(os.path.abspath(out_path))}/'],
                  one)
    try:
        atheris.Fuzz()
    finally:
        flush()


if __name__ == '__main__':
    main()
