"""C17 - bound-driven search, ordering and separation are correct."""
import itertools

from hypothesis import strategies as st

from .. import common
from ..core import Bad, Outcome, guard, hyp_drive
from ..monitor import MON, analyse, install, wrap_class

from graphtage.bounds import NEGATIVE_INFINITY, POSITIVE_INFINITY, Range, make_distinct, min_bounded, sort as bounded_sort
from graphtage.search import IterativeTighteningSearch

ID = 'C17'
TITLE = 'Bound-driven search, ordering and separation are correct'
LEVEL = 'exploration'
TECHNIQUE = ('Hypothesis-generated collections of synthetic Bounded items whose tightening *schedule* is generated data '
             '(plus bounded-exhaustive tiny collections), checked against the items\' known final values; the C04 '
             'monitor runs on the search object')
RULE = ("A case is a collection of 1-7 items plus a style; an item is a finite script of nested integer intervals ending "
        "in a single value, advanced one entry per tighten_bounds() (so which end moves, by how much and how slowly is "
        "generated: one-sided creeping, jumps, ties, identical intervals, already-definitive items, a single item). "
        "A quarter of the collections contain falsy items (__bool__ False, __len__ 0, as a finished IterativeTighteningSearch is); a third carry caller-supplied initial_bounds, some of which reuse the same Range object for a second search over other items (the Range must read the same afterwards and the second search must be right). Style 'strict' returns True iff it advanced; style 'collapse-false' returns False from the very call that "
        "collapses it to a single value (allowed by the Edit docstring, and what EditDistance does). Ranges 0..8 in the "
        "bulk, up to 10^6 in a minority; scripts have at most ~40 steps. Bounded exhaustive: all collections of <= 3 items over range 0..3 with all "
        "monotone schedules of <= 2 steps (quick: <= 2 items; thorough: 3). Oracle: IterativeTighteningSearch(items)."
        "search() returns an item whose final value is the minimum and the search's bounds end single-valued at that "
        "minimum; bounds.sort yields a permutation in non-decreasing final value; min_bounded returns a minimum; after "
        "make_distinct every pair is disjoint or both single-valued; each within a per-item call budget and the global "
        "loop budget (termination); the search object obeys the C04 step rules. Non-trivial: >= 2 items whose initial "
        "intervals overlap and whose final values tie or differ by 1. Distinct by case hash.")
ASSUMPTIONS = [
    "items tighten soundly: every interval of a script contains the final value and is contained in its predecessor",
    "termination is decided by call and loop-iteration budgets, never by wall clock",
]
MANIFEST_TEXT = ("Generated tightening schedules (including slow one-sided convergence, ties and identical intervals on "
                 "small integer ranges, and items that collapse while reporting no progress) drive the search, the "
                 "sort, minimum selection and make_distinct; results are compared with the known final values. "
                 "Exhaustive for tiny collections, sampled beyond.")
MANIFEST_NOTE = "Trusts the synthetic Item class in this module (a list of intervals and an index)."
DESIGN_REF = 'DESIGN.md section 3, C17'
SHRINK = {'lists': ['items', 'second', 'falsy', 'offer'], 'enums': {'style': 'strict', 'initial': None}}

CALL_BUDGET = 20000


class Item:
    def __init__(self, name, steps, style):
        self.name, self.steps, self.style = name, steps, style
        self.i = 0
        self.calls = 0

    def bounds(self):
        lo, hi = self.steps[self.i]
        return Range(lo, POSITIVE_INFINITY if hi is None else hi)       # None = no upper bound known yet

    def tighten_bounds(self):
        self.calls += 1
        if self.calls > CALL_BUDGET:
            raise Bad('nontermination:item-call-budget', f"an item was refined more than {CALL_BUDGET} times")
        if self.i + 1 < len(self.steps):
            self.i += 1
            if self.style == 'collapse-false' and self.i + 1 == len(self.steps):
                return False
            return True
        return False

    @property
    def final(self):
        return self.steps[-1][0]

    def __repr__(self):
        return f"I{self.name}{self.steps}"


class FalsyItem(Item):
    """a Bounded object that is falsy (graphtage's own IterativeTighteningSearch is one once it is finished, and sized
    compound objects are when empty): selection code must test `is None`, not truthiness"""
    def __bool__(self):
        return False

    def __len__(self):
        return 0


def valid_steps(steps):
    if isinstance(steps, list) and len(steps) >= 2 and isinstance(steps[0], list) and len(steps[0]) == 2 and steps[0][1] is None:
        # an item whose first interval has no upper bound; it becomes finite on its first refinement
        return isinstance(steps[0][0], int) and not isinstance(steps[0][0], bool) and valid_steps(steps[1:]) and steps[0][0] <= steps[1][0]
    if not steps or not all(isinstance(s, list) and len(s) == 2 and all(isinstance(x, int) and not isinstance(x, bool) for x in s) for s in steps):
        return False
    if steps[-1][0] != steps[-1][1]:
        return False
    for (a, b), (c, d) in zip(steps, steps[1:]):
        if not (a <= c <= d <= b) or (a, b) == (c, d):
            return False
    return all(a <= b for a, b in steps)


def valid(case):
    if not (case.get('style') in ('strict', 'collapse-false') and isinstance(case.get('items'), list) and
            len(case['items']) >= 1 and all(valid_steps(s) for s in case['items'])):
        return False
    if case.get('second') is not None:
        if not (isinstance(case['second'], list) and case['second'] and all(valid_steps(s) and s[0][1] is not None for s in case['second'])
                and case.get('initial') is not None):
            return False
        m2 = min(s[-1][0] for s in case['second'])
        i0 = case['initial']
        if not ((i0[0] is None or i0[0] <= m2) and (i0[1] is None or m2 <= i0[1])):
            return False
    if case.get('falsy') is not None and not all(isinstance(i, int) for i in case['falsy']):
        return False
    init = case.get('initial')
    if init is not None:
        m = min(s[-1][0] for s in case['items'])
        if not (isinstance(init, list) and len(init) == 2 and (init[0] is None or init[0] <= m) and (init[1] is None or m <= init[1])):
            return False
    return True


@st.composite
def item_steps(draw, lo=0, hi=8):
    final = draw(st.integers(lo, hi))
    lb = draw(st.integers(lo, final))
    ub = draw(st.integers(final, hi + 4))
    steps = [[lb, ub]]
    mode = draw(st.sampled_from(['any', 'creep-low', 'creep-high', 'jump']))
    while (lb, ub) != (final, final):
        if mode == 'jump' or len(steps) > 40:      # scripts are capped at ~40 steps (a harness limit, stated in RULE)
            nlb, nub = final, final
        elif mode == 'creep-low':
            nlb, nub = (lb + 1, ub) if lb < final else (lb, ub - 1)
        elif mode == 'creep-high':
            nlb, nub = (lb, ub - 1) if ub > final else (lb + 1, ub)
        else:
            nlb = draw(st.integers(lb, final))
            nub = draw(st.integers(final, ub))
            if (nlb, nub) == (lb, ub):
                if lb < final:
                    nlb = lb + 1
                else:
                    nub = ub - 1
        lb, ub = nlb, nub
        steps.append([lb, ub])
    return steps


@st.composite
def collections(draw):
    wide = draw(st.integers(0, 9)) == 0
    hi = 10 ** 6 if wide else draw(st.sampled_from([3, 8, 8, 8]))
    n = draw(st.integers(1, 7))
    items = [draw(item_steps(0, hi)) for _ in range(n)]
    if n >= 2 and draw(st.booleans()):
        items[1] = [list(s) for s in items[0]]       # identical intervals / exact tie
    case = {'items': items, 'style': draw(st.sampled_from(['strict', 'collapse-false']))}
    if draw(st.integers(0, 3)) == 0:
        # some items start without an upper bound
        for k in range(n):
            if draw(st.integers(0, 2)) == 0:
                items[k] = [[draw(st.integers(0, items[k][0][0])), None]] + items[k]
    if draw(st.integers(0, 2)) == 0:
        # the caller knows (correct) bounds on the optimum: often tight on one or both sides
        m = min(s[-1][0] for s in items)
        if draw(st.integers(0, 2)) == 0 and not any(s[0][1] is None for s in items):
            # ... and uses the same Range object for a second search over other items (the bounds hold for both)
            second = [draw(item_steps(0, hi)) for _ in range(draw(st.integers(1, 4)))]
            m2 = min(s[-1][0] for s in second)
            lo = draw(st.sampled_from([None, min(m, m2), min(m, m2) - 2]))
            hi2 = draw(st.sampled_from([None, max(m, m2), max(m, m2) + 2]))
            case['initial'] = [lo, hi2]
            case['second'] = second
        else:
            lo = draw(st.sampled_from([None, m, m, m - 1, m - 3]))
            hi = draw(st.sampled_from([None, m, m, m + 1, m + 3]))
            case['initial'] = [lo, hi]
    if draw(st.integers(0, 3)) == 0:
        case['falsy'] = sorted(draw(st.sets(st.integers(0, n - 1), min_size=1, max_size=n)))
    if draw(st.integers(0, 4)) == 0:
        # the candidates are offered to the search with repetitions: the same object may be reached through several entries
        case['offer'] = draw(st.lists(st.integers(0, n - 1), min_size=n, max_size=2 * n + 1))
    return case


def tiny_scripts(R=3, maxsteps=2):
    """All monotone scripts over 0..R with at most `maxsteps` steps after the initial interval."""
    out = []

    def rec(script):
        a, b = script[-1]
        if a == b:
            out.append([list(s) for s in script])
            return
        if len(script) - 1 >= maxsteps:
            return
        for c in range(a, b + 1):
            for d in range(c, b + 1):
                if (c, d) != (a, b):
                    if len(script) - 1 == maxsteps - 1 and c != d:
                        continue
                    rec(script + [(c, d)])
    for a in range(R + 1):
        for b in range(a, R + 1):
            rec([(a, b)])
    return out


def jobs(tier):
    js = []
    n = 500 if tier == 'quick' else 12000
    for s in range(16):
        js.append({'kind': 'gen', 'n': n, 'shard': s})
        js.append({'kind': 'enum', 'k': 2 if tier == 'quick' else 3, 'shard': s})
    return js


def run_job(job, seed, sink):
    if job['kind'] == 'gen':
        hyp_drive(collections(), job['n'], seed, sink)
        return
    scripts = tiny_scripts(3, 2)
    i = 0
    for k in range(1, job['k'] + 1):
        pool = scripts if k < 3 else [s for s in scripts if s[0][1] <= 2]
        for combo in itertools.product(pool, repeat=k):
            for style in ('strict', 'collapse-false'):
                if i % 16 == job['shard']:
                    sink.fast({'items': [list(map(list, s)) for s in combo], 'style': style})
                i += 1


_wrapped = False


def check(case):
    global _wrapped
    install()
    out = Outcome()
    stepss, style = case['items'], case.get('style', 'strict')

    falsy = set(case.get('falsy') or ())

    def mk(ss=None):
        return [(FalsyItem if i in falsy else Item)(i, s, style) for i, s in enumerate(stepss if ss is None else ss)]

    finals = [s[-1][0] for s in stepss]
    m = min(finals)

    # search (with the C04 monitor on the search object)
    its = mk()
    if case.get('offer'):
        offered = [its[i % len(its)] for i in case['offer']] + its       # every item at least once, some several times
        its_for_search = offered
    else:
        its_for_search = its
    MON.reset()
    MON.active = True
    try:
        with guard('IterativeTighteningSearch.search'):
            if case.get('initial') is not None:
                lo, hi = case['initial']
                known = Range(NEGATIVE_INFINITY if lo is None else lo, POSITIVE_INFINITY if hi is None else hi)
                s = IterativeTighteningSearch(iter(its_for_search), initial_bounds=known)
            else:
                s = IterativeTighteningSearch(iter(its_for_search))
            best = s.search()
            b = s.bounds()
    finally:
        MON.active = False

    def final_of(obj):
        bb = obj.bounds()
        return (bb.lower_bound, bb.upper_bound)
    if case.get('initial') is None:
        # (with caller-supplied bounds the search's interval can be single-valued before any item has been looked at, so
        # its "progress" cannot be read off the interval: only its results are checked then)
        analyse(final_of, lambda k, d: out.fail('search-' + k, d) if k.split(':')[-1] == 'IterativeTighteningSearch' else None)
    MON.reset()
    if case.get('initial') is not None:
        lo, hi = case['initial']
        now = (None if known.lower_bound == NEGATIVE_INFINITY else known.lower_bound, None if known.upper_bound == POSITIVE_INFINITY else known.upper_bound)
        if now != (lo, hi):
            out.fail('caller-range-modified', f"the Range passed as initial_bounds was [{lo}, {hi}] and reads [{now[0]}, {now[1]}] after the search")
        elif case.get('second'):
            # the caller reuses its Range object for another search over other items
            out.label('range-object-reused')
            its2 = mk(case['second'])
            m2 = min(x[-1][0] for x in case['second'])
            with guard('second IterativeTighteningSearch.search with the same Range object'):
                s2 = IterativeTighteningSearch(iter(its2), initial_bounds=known)
                best2 = s2.search()
                b2 = s2.bounds()
            if best2 is None or best2.final != m2 or not (b2.definitive() and b2.lower_bound == m2):
                out.fail('second-search-wrong', f"second search with the same Range [{lo}, {hi}] over {case['second']!r} returned "
                                                f"{best2!r} with bounds {b2}, the minimum is {m2} (first search: {stepss!r})")
    if best is None:
        out.fail('search-no-result', f"search() returned None for {stepss!r}")
    else:
        if best.final != m:
            out.fail('search-not-minimum', f"search() returned an item ending at {best.final}, the minimum is {m}: {stepss!r} ({style})")
        elif not (b.definitive() and b.lower_bound == m):
            out.fail('search-bounds-not-minimum', f"search bounds end at {b}, the minimum is {m}: {stepss!r} ({style})")
    # sort
    its = mk()
    with guard('bounds.sort'):
        res = list(bounded_sort(its))
    if sorted(o.name for o in res) != list(range(len(its))):
        out.fail('sort-not-a-permutation', f"sort yielded items {[o.name for o in res]} for {len(its)} inputs")
    else:
        fin = [o.final for o in res]
        if fin != sorted(fin):
            out.fail('sort-order', f"sort yielded final values {fin}: {stepss!r} ({style})")
    # min
    its = mk()
    with guard('bounds.min_bounded'):
        mb = min_bounded(iter(its))
    if mb is None or mb.final != m:
        out.fail('min_bounded-not-minimum', f"min_bounded returned {mb!r}, the minimum is {m}: {stepss!r} ({style})")
    # make_distinct
    its = mk()
    with guard('bounds.make_distinct'):
        make_distinct(*its)
    for i in range(len(its)):
        for j in range(i + 1, len(its)):
            x, y = its[i].bounds(), its[j].bounds()
            ok = (x.definitive() and y.definitive()) or x.upper_bound < y.lower_bound or y.upper_bound < x.lower_bound
            if not ok:
                out.fail('make_distinct-overlap', f"after make_distinct items {i} and {j} are {x} and {y}: {stepss!r} ({style})")
                break
        else:
            continue
        break
    # non-trivial?
    nt = False
    for i in range(len(stepss)):
        for j in range(i + 1, len(stepss)):
            (a, b1), (c, d) = stepss[i][0], stepss[j][0]
            if (d is None or a <= d) and (b1 is None or c <= b1) and abs(finals[i] - finals[j]) <= 1:
                nt = True
    out.nontrivial = nt
    out.label('style:' + style, f'items:{min(len(stepss), 4)}')
    if len(set(finals)) < len(finals):
        out.label('tie')
    if case.get('initial') is not None:
        out.label('known-bounds', 'known-bounds-tight' if m in case['initial'] else 'known-bounds-loose')
    if any(s[0][1] is None for s in stepss):
        out.label('unbounded-start')
    if falsy:
        out.label('falsy-items')
    if case.get('offer'):
        out.label('items-offered-repeatedly')
    out.info = {'finals': finals}
    return out
