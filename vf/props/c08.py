"""C08 - mappings are unordered, lists are ordered."""
import copy

from hypothesis import strategies as st

from .. import common, gen
from ..canon import loose, strict
from ..core import Outcome, guard, hyp_drive
from ..script import Problems, signature, walk
from .c02 import get, paths, put, shuffled

ID = 'C08'
TITLE = 'Mappings are unordered, lists are ordered'
LEVEL = 'exploration'
TECHNIQUE = ('metamorphic relation under Hypothesis-drawn key permutations at every depth (cost, pairing signature, '
             'self-equality) plus element-swap relation for lists')
RULE = ("Cases: a pair (a, b) from the C01 generator x dict strategy x list-edit mode, plus permuted copies a2, b2 in "
        "which the insertion order of every mapping at every depth is redrawn with st.permutations; trees are built by json.build_tree, BasicBuilder or pydiff.build_tree; a quarter of the cases use look-alike sibling keys (leading zeros, case, blanks, Unicode composition, punctuation) with tie-prone values (one case in eight uses mappings with int and float keys, as YAML / pickle / Python-object inputs have them), plus (when a has a "
        "list with two canonically unequal elements) a copy of a with those two elements swapped. Oracle: cost(a,b) = "
        "cost(a2,b2); the pairing signature (who is paired / removed / inserted with which cost, order-insensitive "
        "inside mappings) is identical; cost(a,a2) = 0 and the two trees compare equal; cost(a, swapped a) > 0. "
        "Non-trivial: some mapping with >= 3 keys was actually reordered. Distinct by case hash (key order included).")
ASSUMPTIONS = [
    "the pairing signature compares elements by canonical value; ties between equal-cost matchings did not vary under permutation in 60000 probe cases because mappings are canonically sorted or paired by key",
    "swapped elements that differ only by int/float spelling (1 vs 1.0) are not required to cost > 0",
]
MANIFEST_TEXT = ("Metamorphic exploration: every generated pair is re-run under random key permutations of both documents at "
                 "all depths for all option combinations and must give the same cost and the same pairing; list order "
                 "sensitivity is checked by swapping unequal elements. Permutations are sampled, not enumerated.")
MANIFEST_NOTE = "Trusts vf/script.py's signature and Python's dict insertion order as the carrier of key order into the builders."
DESIGN_REF = 'DESIGN.md section 3, C08'
SHRINK = {'enums': {'ds': 'auto', 'le': 'on'}}


def valid(case):
    return strict(decode_pairs(case['a'])) == strict(decode_pairs(case['a2'])) and \
        strict(decode_pairs(case['b'])) == strict(decode_pairs(case['b2']))


def decode_pairs(doc):
    """{'__pairs__': [[key, value], ...]} -> dict with (possibly non-string) keys in that insertion order"""
    if isinstance(doc, dict):
        if set(doc) == {'__set__'}:
            return set(doc['__set__'])                    # a YAML !!set of scalars
        if set(doc) == {'__pairs__'}:
            return {k: decode_pairs(v) for k, v in doc['__pairs__']}
        return {k: decode_pairs(v) for k, v in doc.items()}
    if isinstance(doc, list):
        return [decode_pairs(x) for x in doc]
    return doc


@st.composite
def numeric_key_cases(draw):
    """mappings whose keys are ints and floats (YAML / pickle / Python objects have them): ordering between the key types
    must still be canonical; values are such that several key pairings tie in cost"""
    kpool = [1, 2, 10, 10.5, 3.5, 20, 2.25, 100, 7]
    vals = st.sampled_from([1, 'x', 'x', 5])
    ka = draw(st.lists(st.sampled_from(kpool), min_size=2, max_size=4, unique=True))
    kb = draw(st.lists(st.sampled_from(kpool), min_size=1, max_size=4, unique=True))
    a = {'__pairs__': [[k, draw(vals)] for k in ka]}
    b = {'__pairs__': [[k, draw(vals)] for k in kb]}
    a2 = {'__pairs__': draw(st.permutations(a['__pairs__']))}
    b2 = {'__pairs__': draw(st.permutations(b['__pairs__']))}
    ds = draw(st.sampled_from(common.DS))
    return {'a': a, 'b': b, 'a2': a2, 'b2': b2, 'swapped': None, 'ds': ds, 'le': 'on', 'pairs': True}


LOOKALIKE_KEYS = [['k1', 'k01', 'k001', 'k'], ['7', '07', '007', '7.0'], ['item10', 'item010', 'item9', 'item'], ['a', 'A', 'a ', ' a'],
                  ['é', 'e\u0301', 'e'], ['x_y', 'x-y', 'xy']]


@st.composite
def lookalike_key_cases(draw):
    """sibling string keys that differ only by leading zeros, case, surrounding blanks, Unicode composition or punctuation:
    any lossy key used for the canonical order lets document order through; values chosen so that pairings tie in cost"""
    group = draw(st.sampled_from(LOOKALIKE_KEYS))
    vals = st.sampled_from(['ab', 'b', 'b', 'x', 1])
    ka = draw(st.lists(st.sampled_from(group), min_size=2, max_size=4, unique=True))
    kb = draw(st.lists(st.sampled_from(group + ['zz']), min_size=1, max_size=3, unique=True))
    a = {k: draw(vals) for k in ka}
    b = {k: draw(vals) for k in kb}
    if draw(st.booleans()):
        a, b = {'w': a, 'n': 1}, {'w': b}
    a2, b2 = shuffled(draw, a), shuffled(draw, b)
    return {'a': a, 'b': b, 'a2': a2, 'b2': b2, 'swapped': None, 'ds': draw(st.sampled_from(common.DS)), 'le': 'on',
            'family': draw(st.sampled_from(['json', 'builder', 'pydiff']))}


COLLIDING = [-1, -2, 0, False, None, '', 0.0, 1, True, 1.0, 2 ** 61 - 1 + 5, 5, 'a']      # several share a Python hash


@st.composite
def colliding_swap_cases(draw):
    """lists whose elements differ only by values that hash alike (-1 / -2, 0 / False / '' / None, 1 / True, n / n + 2**61-1),
    bare or wrapped in a one-key mapping: swapping two of them is a change"""
    wrap = draw(st.booleans())
    vals = draw(st.lists(st.sampled_from(COLLIDING), min_size=2, max_size=4))
    a = [{'id': v} for v in vals] if wrap else list(vals)
    i = draw(st.integers(0, len(a) - 1))
    j = draw(st.integers(0, len(a) - 1))
    sw = None
    if i != j and loose(a[i]) != loose(a[j]):
        sw = list(a)
        sw[i], sw[j] = sw[j], sw[i]
    b = draw(st.sampled_from([a, sw or a, a[::-1]]))
    if draw(st.booleans()):
        a, b, sw = {'w': a}, {'w': b}, ({'w': sw} if sw is not None else None)
    ds, le = draw(gen.options)
    return {'a': a, 'b': b, 'a2': shuffled(draw, a), 'b2': shuffled(draw, b), 'swapped': sw, 'ds': ds, 'le': le,
            'family': draw(st.sampled_from(['json', 'json', 'builder']))}


@st.composite
def cases(draw, max_leaves, max_width):
    k = draw(st.integers(0, 8))
    if k == 0:
        return draw(numeric_key_cases())
    if k <= 2:
        return draw(lookalike_key_cases())
    if k == 3:
        return draw(colliding_swap_cases())
    a, b = draw(gen.doc_pairs(max_leaves, max_width))
    ds, le = draw(gen.options)
    a2, b2 = shuffled(draw, a), shuffled(draw, b)
    sw = None
    cands = [p for p in paths(a) if isinstance(get(a, p), list) and len(get(a, p)) >= 2]
    if cands:
        p = cands[draw(st.integers(0, len(cands) - 1))]
        lst = get(a, p)
        i = draw(st.integers(0, len(lst) - 1))
        j = draw(st.integers(0, len(lst) - 1))
        if i != j and loose(lst[i]) != loose(lst[j]):
            nl = list(lst)
            nl[i], nl[j] = nl[j], nl[i]
            sw = put(a, p, nl)
    return {'a': a, 'b': b, 'a2': a2, 'b2': b2, 'swapped': sw, 'ds': ds, 'le': le, 'family': draw(st.sampled_from(['json', 'json', 'builder', 'pydiff']))}


def jobs(tier):
    n, ml, mw = (300, 10, 4) if tier == 'quick' else (5000, 22, 6)
    return [{'n': n, 'max_leaves': ml, 'max_width': mw, 'shard': s} for s in range(16)]


def run_job(job, seed, sink):
    hyp_drive(cases(job['max_leaves'], job['max_width']), job['n'], seed, sink)


def reordered_big(x, y):
    if isinstance(x, dict) and isinstance(y, dict):
        if len(x) >= 3 and list(x) != list(y):
            return True
        return any(reordered_big(x[k], y[k]) for k in x if k in y)
    if isinstance(x, list) and isinstance(y, list):
        return any(reordered_big(p, q) for p, q in zip(x, y))
    return False


def run(doc_a, doc_b, opts, family='json'):
    ta, tb = gen.build({'a': doc_a, 'b': doc_b, 'family': family}, 'a', opts), gen.build({'a': doc_a, 'b': doc_b, 'family': family}, 'b', opts)
    e = ta.edits(tb)
    common.full_tighten(e)
    probs = Problems()
    rec = walk(e, probs)
    return ta, tb, e, rec


def check(case):
    out = Outcome()
    opts = common.build_options(case.get('ds', 'auto'), case.get('le', 'on'))
    a, b, a2, b2 = (decode_pairs(case[k]) for k in ('a', 'b', 'a2', 'b2'))
    if strict(a) != strict(a2) or strict(b) != strict(b2):
        out.skipped = 'not-a-permutation'
        return out
    fam = case.get('family', 'json')
    if fam not in ('json', 'builder', 'pydiff') or case.get('pairs'):
        fam = 'json' if not case.get('pairs') else case.get('family', 'json')
    with guard('original'):
        ta, tb, e1, r1 = run(a, b, opts, fam)
    with guard('permuted'):
        ta2, tb2, e2, r2 = run(a2, b2, opts, fam)
    c1, c2 = e1.bounds(), e2.bounds()
    out.nontrivial = reordered_big(a, a2) or reordered_big(b, b2)
    out.label('ds:' + case.get('ds', 'auto'), 'le:' + case.get('le', 'on'), 'family:' + fam)
    if out.nontrivial:
        out.label('reordered>=3keys')
    out.info = {'cost': c1.upper_bound if c1.definitive() else str(c1)}
    if (c1.lower_bound, c1.upper_bound) != (c2.lower_bound, c2.upper_bound):
        out.fail('permutation-changes-cost', f"cost {c1} for (a,b) but {c2} after reordering keys: a2={a2!r} b2={b2!r}")
    elif signature(r1) != signature(r2):
        out.fail('permutation-changes-pairing', f"same cost {c1} but a different pairing after reordering keys: a2={a2!r} b2={b2!r}")
    with guard('self'):
        _, _, e3, _ = run(a, a2, opts, fam)
        c3 = e3.bounds()
        eq = gen.build({'a': a, 'family': fam}, 'a', opts) == gen.build({'a': a2, 'family': fam}, 'a', opts)
    if not (c3.definitive() and c3.upper_bound == 0):
        out.fail('permuted-copy-not-equal', f"a document and its key-permuted copy cost {c3}: {a!r} vs {a2!r}")
    elif not eq:
        out.fail('permuted-copy-not-equal', f"a document and its key-permuted copy compare unequal as trees: {a!r} vs {a2!r}")
    sw = case.get('swapped')
    if sw is not None and loose(sw) != loose(a):
        out.label('swap')
        with guard('swap'):
            _, _, e4, _ = run(a, sw, opts, fam)
            c4 = e4.bounds()
        if c4.lower_bound == 0 and c4.upper_bound == 0:
            out.fail('swap-costs-nothing', f"swapping two unequal list elements costs 0: {a!r} vs {sw!r}")
    return out
