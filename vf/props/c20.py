"""C20 - malformed input is reported, not crashed on."""
import json
import os
import plistlib
import xml.etree.ElementTree as ET
from xml.parsers import expat

from hypothesis import strategies as st

from .. import cli, common, gen
from ..core import Outcome, hyp_drive

ID = 'C20'
TITLE = 'Malformed input is reported, not crashed on'
LEVEL = 'fault_enumeration'
TECHNIQUE = ('fault injection: systematic syntactic corruptions (truncation at every byte, deletion/duplication of every '
             'delimiter byte, bracket/tag unbalancing, byte flips) of valid documents, filtered by an independent parser '
             'of the format, fed to main() as first or second file, on standard input, under other extensions and option vectors; '
             'documents up to 200 KiB')
RULE = ("Cases: a valid document of a text format (JSON, JSON5, YAML, XML, HTML, plist; ASCII-only and non-ASCII "
        "variants) serialised deterministically, one corruption {truncate at byte i | delete byte i | duplicate byte i "
        "(delimiter bytes {}[]:,\"<>/=&; newline, space) | replace byte i by an unbalancing bracket/tag character | flip "
        "byte i to a drawn value}, and the position of the corrupt file (first or second) next to a valid file of the "
        "same type (optionally with an explicit, more permissive type given for the valid file only); JSON/XML documents also in a multi-line layout with trailing newline; files of nothing but white space; bytes appended after the end of a valid document; one byte (raw line break, tab, comma) inserted at every position of the first document; corrupt JSON stored under a more lenient type's extension (.json5, .yml) with --from-json / --to-json given explicitly; documents of 3500 records (70-200 KiB) damaged at their end, start and middle; options rotated over the cases include --match-if / --match-unless, -k -l, -e, -d, --format, -j -ll; a third of the first document's corruptions also arrive on standard input (path - with --from-T / --to-T), half of them right after an invocation in the same process that read the well-formed document from standard input (then stderr must carry a message; the temporary file's name is not checked). Quick: every byte position of 3 fixed documents per format for truncate/delete/duplicate x both "
        "positions; thorough adds 30 generated documents per format and byte flips. A corruption is kept only if the "
        "independent parser of the format rejects it (json.loads; json5.loads; both yaml.SafeLoader and "
        "yaml.CSafeLoader; expat; plistlib.loads); the number discarded as still valid is reported. Oracle: main() "
        "returns a non-zero integer, nothing escapes, stdout carries no diff (empty or whitespace), stderr contains the "
        "corrupt file's base name. Non-trivial: a corruption strictly inside the document (not the empty file) that the "
        "independent parser rejects. CSV and pickle are excluded as the property states.")
ASSUMPTIONS = [
    "the independent parsers define 'not syntactically valid': a corruption they still accept is discarded, never blamed on graphtage",
    "HTML is treated as the XML dialect graphtage parses it as (expat is the independent judge)",
    "--no-status (or --quiet) is always passed so that progress-bar text on stderr (which also names the files) cannot satisfy the 'names the file' clause; the logging options --quiet / --log-level CRITICAL / --debug rotate over the cases",
]
MANIFEST_TEXT = ("Fault enumeration: every byte position of several documents per text format is truncated, deleted or "
                 "duplicated (plus generated documents and byte flips in the thorough tier); every corruption that an "
                 "independent parser rejects must produce a clean error exit naming the file, in either file position.")
MANIFEST_NOTE = "Trusts json, json5, PyYAML (both loaders), expat and plistlib as judges of syntactic validity."
DESIGN_REF = 'DESIGN.md section 3, C20'
SHRINK = {'docs': ['doc'], 'enums': {'position': 0, 'opts': '--no-status'}}

FORMATS = ['json', 'json5', 'yaml', 'xml', 'html', 'plist']
# status / logging options the message must survive (each suppresses progress bars, which would also name the files)
# an explicit type for the *valid* file, chosen among parsers that also read it (JSON is valid JSON5 and valid YAML): the
# corrupt file keeps its honest name and must still be judged by its own type
EXPLICIT = {'json': [None, 'json5', 'yaml', None], 'json5': [None, 'yaml']}
OPTS = ['--no-status', '--no-status', '--quiet', '--no-status --log-level CRITICAL', '--no-status --debug',
        '--no-status -m from==to', '--no-status -u from==to', '--no-status -k -l', '--no-status -e', '--no-status -d',
        '--no-status --format yaml', '--no-status -j -ll', '--no-status -m to!=from -u from==to -k']
APPENDED = ['>', '}', ']', '</x>', '<y/>', 'x', '{', '<!--', '\n- ]', '"']
DELIMS = set(b'{}[]:,"<>/=&;\n -')
UNBALANCE = b'{[<"\'>]}'

DOCS = {
    'json': [{'a': [1, 2, {'b': None}], 'c': 'x"y', 'd': 1.5}, [1, 'two', [3.0, True], {'k': 'v'}], {'kéy': ['中文', '\U0001F600'], 'n': -1}],
    'yaml': [{'a': [1, 2, {'b': 'q'}], 'c': 'x: y', 'd': 1.5}, [1, 'two', [3.0, True], {'k': 'v'}], {'kéy': ['中文', 'z'], 'n': -1}],
    'plist': [{'a': [1, 2, {'b': 'q'}], 'c': 'x<y', 'd': 1.5}, [1, 'two', [3.0, True], {'k': 'v'}], {'kéy': ['中文'], 'n': -1}],
    'xml': [
        {'tag': 'root', 'attrib': {'id': '1'}, 'text': 'hello', 'children': [{'tag': 'a', 'attrib': {}, 'text': None, 'children': []},
                                                                              {'tag': 'b', 'attrib': {'k': 'v&w'}, 'text': 't<u', 'children': []}]},
        {'tag': 'r', 'attrib': {}, 'text': None, 'children': [{'tag': 'x', 'attrib': {'a': '"q"'}, 'text': None, 'children': []}]},
        {'tag': 'ré', 'attrib': {'n': '中'}, 'text': 'über', 'children': []},
    ],
}
DOCS['json5'] = DOCS['json']
DOCS['html'] = DOCS['xml']


def EXHAUSTIVE(tier):
    return False


def big_doc(fmt, n):
    """a document of n records (tens of kilobytes once serialised), written in cases as {'__big__': n}"""
    if fmt in ('xml', 'html'):
        return {'tag': 'root', 'attrib': {'v': '1'}, 'text': None,
                'children': [{'tag': 'i', 'attrib': {'n': str(i)}, 'text': 'xxxxxxxxxx', 'children': []} for i in range(n)]}
    return {'items': [{'id': i, 'v': 'xxxxxxxxxx'} for i in range(n)], 'tail': 'end'}


def serialise(fmt, doc, ascii_only=True, layout='compact'):
    if isinstance(doc, dict) and set(doc) == {'__big__'}:
        doc = big_doc(fmt, doc['__big__'])
    if fmt in ('json', 'json5'):
        if layout == 'pretty':      # several lines and a trailing newline, as editors and `json.dump(indent=2)` users produce
            return (json.dumps(doc, ensure_ascii=ascii_only, indent=2) + '\n').encode('utf-8')
        return json.dumps(doc, ensure_ascii=ascii_only).encode('utf-8')
    if fmt == 'yaml':
        import yaml
        return yaml.safe_dump(doc, allow_unicode=not ascii_only, default_flow_style=None).encode('utf-8')
    if fmt == 'plist':
        return plistlib.dumps(doc)
    if fmt in ('xml', 'html'):
        data = ET.tostring(gen.to_et(doc), encoding='us-ascii' if ascii_only else 'utf-8')
        return data + b'\n' if layout == 'pretty' else data
    raise ValueError(fmt)


def rejects(fmt, data):
    """Does the independent parser of the format reject these bytes?"""
    try:
        if fmt == 'json':
            json.loads(data)
        elif fmt == 'json5':
            import json5
            json5.loads(data.decode('utf-8'))
        elif fmt == 'yaml':
            import yaml
            ok = 0
            for L in (yaml.SafeLoader, yaml.CSafeLoader):
                try:
                    list(yaml.load_all(data, Loader=L))
                    ok += 1
                except Exception:
                    pass
            return ok == 0
        elif fmt in ('xml', 'html'):
            p = expat.ParserCreate()
            p.Parse(data, True)
        elif fmt == 'plist':
            plistlib.loads(data)
        return False
    except RecursionError:
        return False
    except Exception:
        return True


def corrupt(data, c):
    k, i = c['kind'], c.get('at', 0)
    if not (0 <= i <= len(data)):
        return None
    if k == 'blank':
        return c['bytes'].encode()
    if k == 'truncate':
        return data[:i]
    if k == 'insert':                   # one extra byte (a raw line break or tab inside a string, a stray comma) at position i
        return data[:i] + c['bytes'].encode() + data[i:]
    if k == 'append':                   # something after the end of the document
        return data + c['bytes'].encode()
    if k == 'fromend':                  # delete / duplicate the i-th byte counted from the end (large documents)
        j = len(data) - 1 - i
        if j < 0:
            return None
        return data[:j] + data[j + 1:] if c.get('op') == 'delete' else data[:j] + data[j:j + 1] + data[j:]
    if k == 'cutend':
        return data[:max(0, len(data) - i)]
    if i >= len(data):
        return None
    if k == 'delete':
        return data[:i] + data[i + 1:]
    if k == 'dup':
        return data[:i] + data[i:i + 1] + data[i:]
    if k == 'replace':
        return data[:i] + bytes([c['byte'] & 0xFF]) + data[i + 1:]
    return None


def jobs(tier):
    js = [{'kind': 'fixed', 'shard': s} for s in range(16)]
    if tier != 'quick':
        js += [{'kind': 'gen', 'n': 12, 'shard': s} for s in range(16)]
    return js


def enumerate_corruptions(fmt, doc, ascii_only, flips=False, layout='compact'):
    data = serialise(fmt, doc, ascii_only, layout)
    for i in range(len(data) + 1):
        yield {'kind': 'truncate', 'at': i}
    for i in range(len(data)):
        yield {'kind': 'delete', 'at': i}
        if data[i] in DELIMS:
            yield {'kind': 'dup', 'at': i}
    if flips:
        for i in range(0, len(data), 3):
            yield {'kind': 'replace', 'at': i, 'byte': UNBALANCE[i % len(UNBALANCE)]}
            yield {'kind': 'replace', 'at': i, 'byte': (data[i] ^ 0x80)}


def gen_doc_strategy(fmt):
    if fmt in ('xml', 'html'):
        return gen.xml_docs(4)
    if fmt in ('plist', 'yaml'):
        return gen.docs(6, 3, gen.plist_scalars)
    return gen.docs(6, 3)


def run_job(job, seed, sink):
    i = 0
    if job['kind'] == 'fixed':
        for fmt in FORMATS:
            for di, doc in enumerate(DOCS[fmt]):
                ascii_only = di != 2
                layouts = ['compact', 'pretty'] if fmt in ('json', 'json5', 'xml', 'html') and di == 0 else ['compact']
                for layout in layouts:
                    for c in enumerate_corruptions(fmt, doc, ascii_only, layout=layout):
                        for pos in (0, 1):
                            if i % 16 == job['shard']:
                                sink.fast({'fmt': fmt, 'doc': doc, 'ascii': ascii_only, 'corruption': c, 'position': pos,
                                           'opts': OPTS[(i // 16) % len(OPTS)], 'layout': layout,
                                           'explicit': EXPLICIT.get(fmt, [None])[(i // 32) % len(EXPLICIT.get(fmt, [None]))]})
                            i += 1
                if di == 0:
                    # one byte inserted at every position: a raw line break / tab (illegal inside strings of the stricter syntaxes), a comma
                    data0 = serialise(fmt, doc, ascii_only)
                    for at in range(len(data0) + 1):
                        for ins in ('\n', ',', '\t'):
                            for pos in ((at + len(ins)) % 2,):
                                if i % 16 == job['shard']:
                                    sink.fast({'fmt': fmt, 'doc': doc, 'ascii': ascii_only, 'corruption': {'kind': 'insert', 'at': at, 'bytes': ins},
                                               'position': pos, 'opts': OPTS[(i // 16) % len(OPTS)], 'layout': 'compact', 'explicit': None})
                                i += 1
                    # the corrupt file carries the extension of a more lenient type while its own, stricter type is given explicitly
                    # (--from-json x.json5): the explicit type decides, so the file is still malformed
                    if fmt == 'json':
                        for ci, c in enumerate(enumerate_corruptions(fmt, doc, ascii_only)):
                            for ext2 in ('json5', 'yml'):
                                for pos in (0, 1):
                                    if i % 16 == job['shard']:
                                        sink.fast({'fmt': fmt, 'doc': doc, 'ascii': ascii_only, 'corruption': c, 'position': pos, 'opts': '--no-status',
                                                   'layout': 'compact', 'explicit': None, 'bad_ext': ext2})
                                    i += 1
                        for at in range(len(data0) + 1):
                            if i % 16 == job['shard']:
                                sink.fast({'fmt': fmt, 'doc': doc, 'ascii': ascii_only, 'corruption': {'kind': 'insert', 'at': at, 'bytes': ','},
                                           'position': at % 2, 'opts': '--no-status', 'layout': 'compact', 'explicit': None, 'bad_ext': ('json5', 'yml')[at % 2]})
                            i += 1
                    # the same corruptions arriving on standard input ("-" with an explicit type), right after an invocation
                    # in the same process that read a well-formed document from standard input
                    for ci, c in enumerate(enumerate_corruptions(fmt, doc, ascii_only)):
                        if ci % 3:
                            continue
                        for pos in (0, 1):
                            if i % 16 == job['shard']:
                                sink.fast({'fmt': fmt, 'doc': doc, 'ascii': ascii_only, 'corruption': c, 'position': pos, 'opts': '--no-status',
                                           'layout': 'compact', 'explicit': None, 'stdin': True, 'warm': ci % 2 == 0})
                            i += 1
            # something after the end of an otherwise valid document
            for ap in APPENDED:
                for pos in (0, 1):
                    if i % 16 == job['shard']:
                        sink.fast({'fmt': fmt, 'doc': DOCS[fmt][0], 'ascii': True, 'corruption': {'kind': 'append', 'bytes': ap},
                                   'position': pos, 'opts': OPTS[(i // 16) % len(OPTS)], 'layout': 'compact', 'explicit': None})
                    i += 1
            # documents of tens of kilobytes (beyond typical buffer and threshold sizes), damaged near the end, at the start and
            # in the middle
            if fmt != 'json5':          # (the independent json5 parser needs seconds per document of this size)
                n = 3500
                big = [{'kind': 'append', 'bytes': ap} for ap in APPENDED[:6]]
                big += [{'kind': 'cutend', 'at': k} for k in (1, 2, 3, 7, 20)] + [{'kind': 'truncate', 'at': k} for k in (0, 1, 9, 40000, 70000)]
                big += [{'kind': 'fromend', 'at': k, 'op': op} for k in (0, 1, 2, 5) for op in ('delete', 'dup')]
                if fmt == 'yaml':
                    big = big[::3]
                for c in big:
                    for pos in (0, 1):
                        if i % 16 == job['shard']:
                            sink.fast({'fmt': fmt, 'doc': {'__big__': n}, 'ascii': True, 'corruption': c, 'position': pos,
                                       'opts': '--no-status', 'layout': 'compact', 'explicit': None})
                        i += 1
            # degenerate files: nothing but white space
            for blank in (b'\n', b'\n\n\n', b' ', b'\t\n'):
                for pos in (0, 1):
                    if i % 16 == job['shard']:
                        sink.fast({'fmt': fmt, 'doc': DOCS[fmt][0], 'ascii': True, 'corruption': {'kind': 'blank', 'bytes': blank.decode()},
                                   'position': pos, 'opts': '--no-status', 'layout': 'compact', 'explicit': None})
                    i += 1
        return
    docs = []
    strat = st.sampled_from(FORMATS).flatmap(lambda f: gen_doc_strategy(f).map(lambda d: (f, d)))
    hyp_drive(strat, job['n'], seed, docs.append)
    for fmt, doc in docs:
        try:
            cs = list(enumerate_corruptions(fmt, doc, True, flips=True))
        except Exception:
            continue
        for c in cs:
            sink.fast({'fmt': fmt, 'doc': doc, 'ascii': True, 'corruption': c, 'position': i % 2, 'opts': OPTS[(i // 2) % len(OPTS)]})
            i += 1


def valid(case):
    try:
        serialise(case['fmt'], case['doc'], case.get('ascii', True))
        return case['fmt'] in FORMATS and case.get('position') in (0, 1)
    except Exception:
        return False


def check(case):
    out = Outcome()
    fmt = case['fmt']
    try:
        good = serialise(fmt, case['doc'], case.get('ascii', True), case.get('layout', 'compact'))
    except Exception:
        out.skipped = 'not-serialisable'
        return out
    if rejects(fmt, good):
        out.skipped = 'valid-document-rejected-by-independent-parser'
        return out
    bad = corrupt(good, case['corruption'])
    if bad is None:
        out.skipped = 'corruption-out-of-range'
        return out
    if not rejects(fmt, bad):
        out.skipped = 'still-valid'
        return out
    ext = cli.EXT[fmt]
    pg, pbad = cli.write_file(good, ext, name='good'), cli.write_file(bad, case.get('bad_ext') or ext, name='corrupt')
    try:
        pair = [pbad, pg] if case.get('position', 0) == 0 else [pg, pbad]
        extra = []
        if case.get('explicit'):
            extra = [('--to-' if case.get('position', 0) == 0 else '--from-') + case['explicit']]
        if case.get('bad_ext'):
            extra = extra + [('--from-' if case.get('position', 0) == 0 else '--to-') + fmt]
        if case.get('stdin'):
            pos = case.get('position', 0)
            pair = ['-', pg] if pos == 0 else [pg, '-']
            extra = extra + [('--from-' if pos == 0 else '--to-') + fmt]
            if case.get('warm'):
                cli.run_main(pair + ['--no-status', '--no-color'] + extra, stdin=good)
            r = cli.run_main(pair + case.get('opts', '--no-status').split() + ['--no-color'] + extra, stdin=bad)
        else:
            r = cli.run_main(pair + case.get('opts', '--no-status').split() + ['--no-color'] + extra)
    finally:
        cli.cleanup_files(pg, pbad)
    what = f"{fmt} {case['corruption']} {'on standard input ' if case.get('stdin') else ''}as {'first' if case.get('position', 0) == 0 else 'second'} file{' with ' + extra[0] + ' for the valid file' if extra else ''}; corrupt bytes {bad[:80]!r}"
    if r.exc is not None:
        out.fail('exception:' + r.exc_key, f"{what}: {type(r.exc).__name__}: {str(r.exc)[:160]}")
    elif isinstance(r.rc, tuple):
        out.fail('system-exit', f"{what}: main() called exit({r.rc[1]!r})")
    elif not isinstance(r.rc, int) or r.rc == 0:
        out.fail('status-zero-on-malformed-input', f"{what}: main() returned {r.rc!r}; stdout {r.out[:100]!r}")
    else:
        if r.out.strip():
            out.fail('diff-printed-for-malformed-input', f"{what}: stdout {r.out[:120]!r}")
        if case.get('stdin'):
            if not r.err.strip():
                out.fail('no-error-message', f"{what}: nothing on standard error")
        elif os.path.basename(pbad) not in r.err:
            out.fail('error-does-not-name-file', f"{what}: stderr {r.err[-200:]!r} does not mention {os.path.basename(pbad)}")
    out.nontrivial = len(bad) > 0
    out.label('fmt:' + fmt, 'kind:' + case['corruption']['kind'], 'pos:%d' % case.get('position', 0), 'opts:' + case.get('opts', '--no-status'))
    if len(good) > 65536:
        out.label('document-over-64KiB')
    if case.get('bad_ext'):
        out.label('explicit-strict-type-on-lenient-extension')
    if case.get('stdin'):
        out.label('via-stdin', 'after-valid-stdin-run' if case.get('warm') else 'first-stdin-run')
    out.info = {'rc': r.rc if not isinstance(r.rc, tuple) else list(r.rc), 'stderr': r.err[-120:]}
    return out
