"""C12 - printing an unedited document yields text that parses back equal."""
import csv
import io
import os
import json
import plistlib
import xml.etree.ElementTree as ET

from hypothesis import strategies as st

from .. import cli, common, gen
from ..canon import plain
from ..core import Outcome, guard, hyp_drive

import graphtage
from graphtage.printer import Printer

ID = 'C12'
TITLE = 'Printing an unedited document yields text that parses back equal'
LEVEL = 'exploration'
TECHNIQUE = ('round-trip oracle per format over Hypothesis-generated documents of the stated domain: load, print with the '
             'format\'s own formatter (fresh Printer, reused Printer, Printer on a real stdout; every dictionary strategy), load the '
             'printed text, compare canonical values')
RULE = ("[XML element text also multi-line, padded and blank, with and without children; a third of the cases print a small document of ANOTHER format on the same Printer object first (one Printer used for several documents) and a half render a diff before the round trip.] Cases per format. JSON / JSON5: recursive documents with st.text() over all Unicode scalars (plus escapes, "
        "quotes, separators, newlines), arbitrary-size ints, floats incl. -0.0, subnormals, 1e308, NaN/Infinity, empty "
        "containers, depth <= 6, written with ensure_ascii on and off. CSV: tables of arbitrary text cells incl. quotes, "
        "commas, CR/LF, empty cells and rows. YAML / plist: arbitrary structure (incl. empty and nested containers) over "
        "alphanumeric strings, ints, floats, booleans. XML: element trees with alphanumeric tags, attributes and text. "
        "Half of the cases first render a *diff* of the document in the same format and process (what was rendered before must not leak into the next print). Oracle: load(print(load(x))) succeeds and its canonical value (type-tagged; XML text modulo surrounding "
        "whitespace; NaN == NaN) equals that of load(x), where print is the type's default formatter on "
        "Printer(ansi_color=False). Non-trivial: a document with >= 1 container and >= 1 character outside [A-Za-z0-9] "
        "(JSON/JSON5/CSV) or nesting depth >= 2 (others). Distinct by case hash.")
ASSUMPTIONS = [
    "the first load is graphtage's own, so loader quirks that apply to both loads (e.g. newline translation in CSV cells) cancel out",
    "YAML, plist and XML are only claimed over plain alphanumeric content, as the property states",
]
MANIFEST_TEXT = ("Per-format print/parse round trip over generated documents covering the whole stated value domain (all "
                 "Unicode scalars, escapes, separators, embedded newlines, empty containers, deep nesting, extreme "
                 "numbers for JSON/JSON5/CSV; alphanumeric content with arbitrary structure for YAML/plist/XML).")
MANIFEST_NOTE = "Trusts vf/canon.py's plain() for comparing two graphtage trees; the input files are written by the standard libraries."
DESIGN_REF = 'DESIGN.md section 3, C12'
SHRINK = {'docs': ['doc'], 'enums': {'warm': False, 'reuse': None, 'ds': 'auto', 'real': False}}


def _has_empty_container(d):
    if isinstance(d, (list, dict)):
        if len(d) == 0:
            return True
        return any(_has_empty_container(v) for v in (d.values() if isinstance(d, dict) else d))
    return False


PREDICATES = {'yaml_empty_container': lambda case, key, detail: case.get('fmt') == 'yaml' and _has_empty_container(case.get('doc'))}

FT = graphtage.FILETYPES_BY_TYPENAME

text_full = st.one_of(st.text(max_size=8), st.sampled_from(['"', '\\', '\n', '\r\n', '\t', ',', ':', '\x00', '\x7f', ' ', '﻿',
                                                            '\U0001F600', 'é', "'", '/', '</', '\\u0041', '#', ' ']))
big = st.sampled_from([0, -1, 2 ** 53, 2 ** 63, 2 ** 64, -2 ** 63 - 1, 10 ** 30, -10 ** 30])
odd_floats = st.sampled_from([-0.0, 5e-324, 1e308, -1e308, 1e-7, 1.5e300, 0.1, float('nan'), float('inf'), float('-inf'), 2.0 ** 53])
jscal = st.one_of(st.none(), st.booleans(), st.integers(), big, st.floats(allow_nan=False, allow_infinity=False), odd_floats,
                  text_full, text_full)
jdocs = st.recursive(jscal, lambda ch: st.one_of(st.lists(ch, max_size=4), st.dictionaries(text_full, ch, max_size=4)),
                     max_leaves=10)
alnum = st.one_of(
    st.text(alphabet='abcXYZ019', min_size=1, max_size=6), st.text(alphabet='abcXYZ019', min_size=1, max_size=6),
    # alphanumeric spellings that mean something else in some YAML / plist / XML reader when left unquoted
    st.sampled_from(['0x1F', '0b1010', '0x10', '1e3', '0o17', 'yes', 'no', 'on', 'off', 'null', 'true', 'false', 'y', 'n', '00123',
                     'Inf', 'NaN', 'nan', '1E5', '0xZZ', '12', '0', 'Null', 'TRUE', 'e3', '0e0']))
ascal = st.one_of(st.booleans(), st.integers(-1000, 1000), st.floats(allow_nan=False, allow_infinity=False, width=32),
                  st.sampled_from([0.5, 1.0, -2.25]), alnum)
adocs = st.recursive(ascal, lambda ch: st.one_of(st.lists(ch, max_size=3), st.dictionaries(alnum, ch, max_size=3)), max_leaves=8)
cells = st.one_of(st.text(max_size=6), st.integers().map(str), st.sampled_from(['', '"', ',', '\n', '\r\n', 'a,b', '"q"', ' x ', '\r']))
tables = st.lists(st.lists(cells, max_size=4), max_size=4)
tags = st.text(alphabet='abcXYZ', min_size=1, max_size=4)


# element text as hand-written and pretty-printed documents have it: several lines, indentation around it, blanks inside
xtext = st.one_of(st.none(), alnum, alnum, st.sampled_from(['\n  remember\n  ', 'two\nlines', ' padded ', 'a b', 'x\n', '\n  ', 'tab\there']))


def xml_docs():
    leaf = st.builds(lambda t, at, tx: {'tag': t, 'attrib': at, 'text': tx, 'children': []},
                     tags, st.dictionaries(tags, alnum, max_size=2), xtext)
    return st.recursive(leaf, lambda ch: st.builds(
        lambda t, at, tx, cs: {'tag': t, 'attrib': at, 'text': tx, 'children': cs},
        tags, st.dictionaries(tags, alnum, max_size=2), xtext, st.lists(ch, max_size=3)), max_leaves=6)


def _warm(strat):
    return st.tuples(strat, st.booleans(), st.sampled_from([None, 'json', 'yaml', 'plist', 'plist', 'xml', 'csv']),
                     st.sampled_from(['auto', 'auto', 'none', 'match']), st.integers(0, 3)).map(
        lambda t: dict(t[0], warm=t[1], ds=t[3], **({'reuse': t[2]} if t[2] and t[2] != t[0]['fmt'] and t[4] else {}),
                       **({'real': True} if t[4] == 0 else {})))


STRATS = {
    'json': _warm(st.tuples(jdocs, st.booleans()).map(lambda t: {'fmt': 'json', 'doc': t[0], 'ascii': t[1]})),
    'json5': _warm(jdocs.map(lambda d: {'fmt': 'json5', 'doc': d, 'ascii': True})),
    'csv': _warm(tables.map(lambda d: {'fmt': 'csv', 'doc': d})),
    'yaml': _warm(adocs.map(lambda d: {'fmt': 'yaml', 'doc': d})),
    'plist': _warm(adocs.map(lambda d: {'fmt': 'plist', 'doc': d})),
    'xml': _warm(xml_docs().map(lambda d: {'fmt': 'xml', 'doc': d})),
}


def jobs(tier):
    n = {'json': 40, 'json5': 12, 'csv': 40, 'yaml': 40, 'plist': 40, 'xml': 40} if tier == 'quick' else \
        {'json': 1300, 'json5': 200, 'csv': 1300, 'yaml': 1300, 'plist': 1300, 'xml': 1300}
    return [{'fmt': f, 'n': n[f], 'shard': s} for s in range(16) for f in STRATS]


def run_job(job, seed, sink):
    hyp_drive(STRATS[job['fmt']], job['n'], seed, sink)


def valid(case):
    f, d = case.get('fmt'), case.get('doc')
    if f == 'csv':
        return isinstance(d, list) and all(isinstance(r, list) and all(isinstance(c, str) for c in r) for r in d)
    if f == 'xml':
        return gen.valid_case({'family': 'xml', 'a': d, 'b': d})
    if f in ('yaml', 'plist'):
        def ok(x):
            if isinstance(x, dict):
                return all(isinstance(k, str) and k.isalnum() and ok(v) for k, v in x.items())
            if isinstance(x, list):
                return all(ok(v) for v in x)
            if isinstance(x, str):
                return x.isalnum()
            return x is not None and (not isinstance(x, float) or (x == x and abs(x) != float('inf')))
        return ok(d)
    if f in ('json', 'json5'):
        try:
            json.dumps(d)
            return True
        except Exception:
            return False
    return False


def serialise(case):
    f, d = case['fmt'], case['doc']
    if f in ('json', 'json5'):
        return json.dumps(d, ensure_ascii=bool(case.get('ascii', True))).encode('utf-8', 'surrogatepass')
    if f == 'csv':
        s = io.StringIO(newline='')
        w = csv.writer(s)
        for r in d:
            w.writerow(r)
        return s.getvalue().encode('utf-8', 'surrogatepass')
    if f == 'yaml':
        import yaml
        return yaml.safe_dump(d).encode('utf-8')
    if f == 'plist':
        return plistlib.dumps(d)
    if f == 'xml':
        return ET.tostring(gen.to_et(d))
    raise ValueError(f)


TINY = {'json': b'{"k": [1, {"a": "b", "c": "d"}]}', 'yaml': b'k:\n- 1\n- a: b\n  c: d\n', 'csv': b'a,b\n1,2\n',
        'xml': b'<r a="1"><c>t</c><d/></r>',
        'plist': plistlib.dumps({'k': [1, {'a': 'b', 'c': 'd'}]})}
_tiny_trees = {}


def tiny_tree(fmt):
    if fmt not in _tiny_trees:
        p = cli.write_file(TINY[fmt], cli.EXT[fmt], name='tiny')
        try:
            _tiny_trees[fmt] = FT[fmt].build_tree(p)
        finally:
            cli.cleanup_files(p)
    return _tiny_trees[fmt]


def printed_real(fmt, tree):
    """the same print through a Printer bound to the process's standard output when that is a real file (status output
    on): the Printer then buffers lines and emits them with tqdm.write - what a terminal or a pipe gets"""
    import sys
    from ..core import scratch_dir
    cli._counter[0] += 1
    po = os.path.join(scratch_dir(), f"c12out{cli._counter[0]}.txt")
    so, se = sys.stdout, sys.stderr
    fo, fe = open(po, 'w', encoding='utf-8', newline=''), open(po + '.err', 'w', encoding='utf-8')
    sys.stdout, sys.stderr = fo, fe
    try:
        pr = Printer(ansi_color=False, quiet=False)
        FT[fmt].get_default_formatter().print(pr, tree)
        pr.flush(final=True)
    finally:
        sys.stdout, sys.stderr = so, se
        for f in (fo, fe):
            try:
                f.close()
            except Exception:
                pass
    try:
        with open(po, encoding='utf-8', newline='') as f:
            return f.read()
    finally:
        cli.cleanup_files(po, po + '.err')


def printed(fmt, tree, reuse=None):
    s = io.StringIO()
    pr = Printer(out_stream=s, ansi_color=False, quiet=True)
    start = 0
    if reuse:
        # one Printer used for several documents: a small document of another format is printed on it first; whatever that
        # formatter left behind on the printer must not change how this one prints
        try:
            FT[reuse].get_default_formatter().print(pr, tiny_tree(reuse))
            pr.write('\n')
            pr.flush(final=True)
        except Exception:
            pass
        start = len(s.getvalue())
    FT[fmt].get_default_formatter().print(pr, tree)
    pr.flush(final=True)
    return s.getvalue()[start:]


def depth(d):
    if isinstance(d, dict):
        if 'children' in d and 'tag' in d:
            return 1 + max([depth(c) for c in d['children']] or [0])
        return 1 + max([depth(v) for v in d.values()] or [0])
    if isinstance(d, list):
        return 1 + max([depth(v) for v in d] or [0])
    return 0


def special_chars(d):
    if isinstance(d, dict):
        return any(special_chars(k) or special_chars(v) for k, v in d.items())
    if isinstance(d, list):
        return any(special_chars(v) for v in d)
    if isinstance(d, str):
        return any(not (c.isascii() and c.isalnum()) for c in d)
    return False


def grow_strings(d):
    """the same document with every string (values, cells, text, attribute values) extended at its end"""
    if isinstance(d, dict):
        if set(d) == {'tag', 'attrib', 'text', 'children'}:
            return {'tag': d['tag'], 'attrib': {k: v + 'tage' for k, v in d['attrib'].items()},
                    'text': (d['text'] + 'tage') if d['text'] else d['text'], 'children': [grow_strings(c) for c in d['children']]}
        return {k: grow_strings(v) for k, v in d.items()}
    if isinstance(d, list):
        return [grow_strings(x) for x in d]
    if isinstance(d, str):
        return d + 'tage'
    return d


def warm_up(case):
    """Render a *diff* in this format (no colour) before the unedited print: what was rendered earlier in the process must
    not leak into the next rendering. Failures in here are not C12's business."""
    fmt = case['fmt']
    try:
        c2 = dict(case, doc=grow_strings(case['doc']))
        pa, pb = cli.write_file(serialise(case), cli.EXT[fmt], name='wa'), cli.write_file(serialise(c2), cli.EXT[fmt], name='wb')
        try:
            ta, tb = FT[fmt].build_tree(pa), FT[fmt].build_tree(pb)
            pr = Printer(out_stream=io.StringIO(), ansi_color=False, quiet=True)
            FT[fmt].get_default_formatter().print(pr, ta.diff(tb))
        finally:
            cli.cleanup_files(pa, pb)
    except Exception:
        pass


def check(case):
    out = Outcome()
    fmt = case['fmt']
    if case.get('warm'):
        warm_up(case)
    try:
        data = serialise(case)
        data.decode('utf-8')
    except Exception:
        out.skipped = 'not-serialisable'
        return out
    p1 = cli.write_file(data, cli.EXT[fmt], name='in')
    p2 = None
    try:
        opts = common.build_options(case.get('ds', 'auto'), 'on')
        try:
            t1 = FT[fmt].build_tree(p1, opts)
        except Exception:
            out.skipped = 'input-rejected-by-loader'      # not this property's business (C20 covers rejection)
            return out
        with guard(f'print {fmt}'):
            text = printed_real(fmt, t1) if case.get('real') else printed(fmt, t1, case.get('reuse'))
        try:
            raw = text.encode('utf-8')
        except UnicodeEncodeError as e:
            out.fail(f'printed-text-not-encodable:{fmt}', f"{e}; doc={case['doc']!r}")
            return out
        p2 = cli.write_file(raw, cli.EXT[fmt], name='out')
        try:
            t2 = FT[fmt].build_tree(p2, opts)
        except Exception as e:
            out.fail(f'printed-text-rejected:{fmt}', f"{type(e).__name__}: {str(e)[:150]}; doc={case['doc']!r}; printed={text[:200]!r}")
            return out
        with guard('plain'):
            v1, v2 = plain(t1, True), plain(t2, True)
        if case.get('real') and fmt == 'csv':
            # the line-buffered path ends its output with line terminators of its own (flush(final=True) is documented to add a
            # final newline), which a CSV reader takes for empty rows: rows without cells at the very end are not compared
            def strip_tail(v):
                rows = list(v[1]) if isinstance(v, tuple) and len(v) == 2 and v[0] == 'list' else None
                if rows is None:
                    return v
                while rows and rows[-1] == ('list', ()):
                    rows.pop()
                return ('list', tuple(rows))
            v1, v2 = strip_tail(v1), strip_tail(v2)
        if v1 != v2:
            out.fail(f'reloaded-document-differs:{fmt}', f"loaded {v1!r}, after print+load {v2!r}; printed={text[:200]!r}")
    finally:
        cli.cleanup_files(p1, *( [p2] if p2 else []))
    d = case['doc']
    if fmt in ('json', 'json5', 'csv'):
        out.nontrivial = depth(d) >= 1 and special_chars(d)
    else:
        out.nontrivial = depth(d) >= 2
    out.label('fmt:' + fmt)
    out.label('ds:' + case.get('ds', 'auto'))
    if case.get('real'):
        out.label('printer-on-real-stdout')
    if case.get('reuse'):
        out.label('printer-reused-after:' + case['reuse'])
    out.info = {'printed_len': len(text)}
    return out
