"""C10 - matching options restrict the script as documented."""
from .. import common, gen
from ..canon import plain
from ..core import Outcome, guard, hyp_drive
from ..script import Problems, walk

from graphtage import ListNode, MappingNode

ID = 'C10'
TITLE = 'Matching options restrict the script as documented'
LEVEL = 'exploration'
TECHNIQUE = ('Hypothesis-generated pairs x all nine option combinations; independent walker checks the pairing '
             'constraints each option documents on every mapping and list edit at every depth')
RULE = ("Cases: C01's generators for JSON-like documents, YAML streams of several documents (read as the list of the documents, loaded through the YAML file type), nested lists, plist-wrapped documents (all built by "
        "json.build_tree with the options), the same documents built through BasicBuilder / pydiff.build_tree and XML elements (attributes carry the dictionary strategy) x {auto, match, "
        "none} x {on, off, off-when-same-length}; half of the 'none' cases ask for it as a library user would, BuildOptions(allow_key_edits=False) with auto_match_keys left at its default. Oracle over the fully refined script: strategy none => no "
        "non-insert/remove sub-edit of a mapping edit pairs items whose keys differ; auto => for every key present in "
        "both mappings some sub-edit pairs exactly those two items; list edits off (or off-when-same-length with equal "
        "lengths) => sub-edit i pairs element i with element i for i < min(len), followed only by removes (resp. "
        "inserts) of the surplus tail in order. XML child lists and CSV rows are built without list options and are "
        "outside the list-option domain. For JSON documents every command-line spelling of the options (-k, --no-key-edits, --dict-strategy X, -l, -ll, long forms) must give the edit list the library gives under the equivalent options. Non-trivial: a mapping edit with both a shared and an unshared key, or a "
        "positional list edit with a surplus tail. Distinct by case hash.")
ASSUMPTIONS = [
    "list options are only claimed for lists built by json.build_tree or the Builder framework (JSON/JSON5/YAML/plist/pickle/Python-object inputs); XML child lists and CSV rows ignore them by construction",
    "paired elements are identified by canonical value, so a mis-pairing between equal-valued duplicates is not distinguished",
]
MANIFEST_TEXT = ("Every mapping and list edit at every depth of every generated pair is checked against the documented "
                 "meaning of its build options, for all nine combinations. Exploration over bounded documents.")
MANIFEST_NOTE = "Trusts vf/script.py's walker and the README's wording of the option semantics."
DESIGN_REF = 'DESIGN.md section 3, C10'
SHRINK = {'docs': ['a', 'b'], 'enums': {'ds': 'auto', 'le': 'on', 'api_none': False}}
valid = gen.valid_case


def jobs(tier):
    if tier == 'quick':
        plan = [('json', 10, 4, 260), ('nested', 0, 0, 60), ('xml', 5, 0, 120), ('plist', 8, 0, 30), ('builder', 10, 4, 120), ('yamlstream', 0, 0, 60)]
    else:
        plan = [('json', 25, 7, 6000), ('nested', 0, 0, 1200), ('xml', 8, 0, 1000), ('plist', 12, 0, 600), ('builder', 20, 6, 2500), ('yamlstream', 0, 0, 1000)]
    js = []
    for s in range(16):
        for fam, ml, mw, n in plan:
            js.append({'family': fam, 'max_leaves': ml, 'max_width': mw, 'n': n, 'shard': s})
    return js


def run_job(job, seed, sink):
    from .c01 import strategy_for
    n = [0]

    def sink2(c):
        # every other 'none' case asks for it the library way: BuildOptions(allow_key_edits=False) and nothing else
        n[0] += 1
        sink(dict(c, api_none=True) if c.get('ds') == 'none' and n[0] % 2 else c)
    hyp_drive(strategy_for(job), job['n'], seed, sink2)


def key_of(kvp):
    return plain(kvp.key)


def check_mapping(r, ds, out, stats):
    f, t = r.f, r.t
    fk = {}
    for k in f:
        fk.setdefault(key_of(k), []).append(k)
    tk = {}
    for k in t:
        tk.setdefault(key_of(k), []).append(k)
    shared = set(fk) & set(tk)
    paired = [s for s in r.subs if s.kind not in ('remove', 'insert')]
    if shared and (set(fk) ^ set(tk)):
        stats['mixed-mapping'] = True
    if ds == 'none':
        for s in paired:
            if key_of(s.f) != key_of(s.t):
                out.fail('none-pairs-different-keys',
                         f"strategy none: {type(s.edit).__name__} pairs key {key_of(s.f)[1]!r} with key {key_of(s.t)[1]!r}")
                return
    if ds == 'auto':
        for k in shared:
            if len(fk[k]) != 1 or len(tk[k]) != 1:
                continue
            if not any(s.f is not None and s.t is not None and key_of(s.f) == k and key_of(s.t) == k
                       and plain(s.f) == plain(fk[k][0]) and plain(s.t) == plain(tk[k][0]) for s in paired):
                out.fail('auto-shared-key-not-paired', f"strategy auto: key {k[1]!r} is in both mappings but no sub-edit pairs its two items")
                return


def check_list(r, le, out, stats):
    f, t = r.f, r.t
    fc, tc = list(f.children()), list(t.children())
    positional = le == 'off' or (le == 'same' and len(fc) == len(tc))
    if not positional:
        return
    stats['positional'] = True
    if len(fc) != len(tc):
        stats['positional-tail'] = True
    m = min(len(fc), len(tc))
    subs = r.subs
    if len(subs) != max(len(fc), len(tc)):
        out.fail('positional-length', f"list edits off: lists of {len(fc)} and {len(tc)} elements produce {len(subs)} sub-edits")
        return
    for i, s in enumerate(subs):
        if i < m:
            if s.kind in ('remove', 'insert') or plain(s.f) != plain(fc[i]) or plain(s.t) != plain(tc[i]):
                out.fail('not-positional', f"list edits off: sub-edit {i} is {s.kind} {s.pf!r} -> {s.pt!r}, expected element {i} "
                                           f"{plain(fc[i])!r} -> {plain(tc[i])!r}")
                return
        elif len(fc) > len(tc):
            if s.kind != 'remove' or plain(s.f) != plain(fc[i]):
                out.fail('tail-not-removed', f"list edits off: sub-edit {i} is {s.kind}, expected removal of surplus element {i}")
                return
        else:
            if s.kind != 'insert' or plain(s.t) != plain(tc[i]):
                out.fail('tail-not-inserted', f"list edits off: sub-edit {i} is {s.kind}, expected insertion of surplus element {i}")
                return


SPELLINGS = {
    ('ds', 'none'): [['-k'], ['--no-key-edits'], ['--dict-strategy', 'none'], ['-ds', 'none']],
    ('ds', 'match'): [['--dict-strategy', 'match']],
    ('ds', 'auto'): [[], ['--dict-strategy', 'auto']],
    ('le', 'off'): [['-l'], ['--no-list-edits']],
    ('le', 'same'): [['-ll'], ['--no-list-edits-when-same-length']],
    ('le', 'on'): [[]],
}


def check_cli(case, out):
    """Every command-line spelling of the options must select the same matching behaviour as the library options: the
    edit list printed by --only-edits is compared with the library's get_all_edits under the equivalent BuildOptions."""
    import json as _json
    from .. import cli
    ds, le = case.get('ds', 'auto'), case.get('le', 'on')
    opts = common.build_options(ds, le)
    pa, pb = cli.write_file(_json.dumps(gen.expand(case['a'])), 'json', name='A'), cli.write_file(_json.dumps(gen.expand(case['b'])), 'json', name='B')
    try:
        with guard('library get_all_edits'):
            from graphtage import json as gjson
            ta, tb = gjson.build_tree(gen.expand(case['a']), opts), gjson.build_tree(gen.expand(case['b']), opts)
            want = ''.join(str(e) + '\n' for e in ta.get_all_edits(tb)) + '\n'
        h = sum(map(ord, _json.dumps(case['a'])[:40]))
        dss, les = SPELLINGS[('ds', ds)], SPELLINGS[('le', le)]
        args = dss[h % len(dss)] + les[h % len(les)]
        r = cli.run_main([pa, pb, '--no-status', '--no-color', '-e'] + args)
        if r.exc is None and r.rc in (0, 1) and r.out != want:
            out.fail('cli-option-not-honoured', f"options {args or '(defaults)'}: --only-edits prints {r.out[:160]!r}, the library with the "
                                                f"equivalent BuildOptions (dict strategy {ds}, list edits {le}) lists {want[:160]!r}")
    finally:
        cli.cleanup_files(pa, pb)


def check(case):
    out = Outcome()
    ds, le = case.get('ds', 'auto'), case.get('le', 'on')
    with guard('build'):
        a, b = gen.build(case, 'a'), gen.build(case, 'b')
    with guard('edits+refine'):
        e = a.edits(b)
        common.full_tighten(e)
    probs = Problems()
    with guard('walk script'):
        rec = walk(e, probs)
    stats = {}
    n_map = n_list = 0
    for r in rec.all():
        if r.kind == 'unordered' and isinstance(r.f, MappingNode) and isinstance(r.t, MappingNode):
            n_map += 1
            check_mapping(r, ds, out, stats)
        elif r.kind == 'ordered' and type(r.f) is ListNode and type(r.t) is ListNode:
            n_list += 1
            check_list(r, le, out, stats)
    if case.get('family', 'json') == 'json' and not out.failures and not case.get('api_none'):
        check_cli(case, out)
    out.nontrivial = bool(stats.get('mixed-mapping') or stats.get('positional-tail'))
    out.label('family:' + case.get('family', 'json'), 'ds:' + ds + ('(allow_key_edits=False only)' if case.get('api_none') else ''), 'le:' + le)
    for k in stats:
        out.label(k)
    out.info = {'mapping_edits': n_map, 'list_edits': n_list}
    return out
