"""C15 - minimum-weight assignment is valid and optimal."""
import itertools

from hypothesis import strategies as st

from .. import common  # noqa: F401
from ..core import Outcome, guard, hyp_drive

from graphtage.matching import get_dtype, min_weight_bipartite_matching

ID = 'C15'
TITLE = 'Minimum-weight assignment is valid and optimal'
LEVEL = 'exploration'
TECHNIQUE = ('exhaustive enumeration of tiny weight tables + Hypothesis-sampled rectangular tables at dtype boundaries, '
             'against a brute-force optimum over all injections')
RULE = ("Exhaustive: every r x c integer table with entries in {0,1,2} for r,c <= 3 (entries {0,1} up to 3 x 4 and "
        "4 x 3 in the thorough tier), every boolean table up to 3 x 3, every {None,0,1} sparse table up to 2 x 3 / 3 x 2. "
        "Sampled: rectangular tables up to 6 x 6 of one documented type: ints near every dtype boundary of get_dtype "
        "(255/256, 2^16, 2^31, 2^32, 2^63-1, negatives down to -2^63) kept inside the documented range, floats, "
        "booleans, tables with many ties, sparse int/float tables with missing pairs incl. all-missing rows, columns and "
        "tables; tall / wide tables of integers beyond 2^53 that differ by far more than float64 rounding; 120-401 x 120-401 tables with a constructed optimum of 0 (a cyclic shift of the diagonal); lopsided tables (2-3 x 343-1030 and transposed, a thousand cells and more, weight = f(row)+g(col) with ties, or a few cheap rows) whose optimum is computed exactly from each short-side item's k cheapest partners; every other table is solved under the quiet default printer; short call histories of 2-3 tables of different element types with coinciding extremes (results must not depend on earlier calls). Oracle for every table: the result is one-to-one, uses only existing pairs and reports for each pair "
        "the table's own entry with its type; for complete tables additionally |matching| = min(r,c) and the total "
        "equals the brute-force minimum over all injections (<= 720 per table; floats with relative tolerance 1e-12); "
        "get_dtype(lo,hi) can represent lo and hi. Non-trivial: non-square, or a tie on the optimum, or a missing pair. "
        "Distinct by case hash (enumerated tables are distinct by construction).")
ASSUMPTIONS = [
    "all weights of one table have one type (int, float or bool) and ints stay within [-2^63, 2^63-1], as the docstring requires",
    "sums of weights along any assignment stay within the dtype numpy/scipy use for that table (boundary values are combined with small values so that no optimal or candidate total exceeds 2^63-1)",
    "boolean tables with missing pairs: the docstring promises ValueError, the code returns a result; both a valid result and that documented rejection are accepted",
]
MANIFEST_TEXT = ("Differential check of the assignment routine against brute force: exhaustive for tiny tables (including "
                 "rectangular and sparse ones), sampled up to 6 x 6 with dtype-boundary weights and ties. Validity is "
                 "checked for every table, optimality where no pair is missing, as the property states.")
MANIFEST_NOTE = "Trusts itertools.permutations brute force as the optimum."
DESIGN_REF = 'DESIGN.md section 3, C15'
SHRINK = {'docs': ['w'], 'lists': ['tables'], 'enums': {'quiet': False}}


def _tables_of(case):
    return [expand_table(t) for t in (case['tables'] if 'tables' in case else [case['w']])]


def _beyond_2p53(case, key, detail):
    """F24 is a *precision* finding: the solver works in float64, so with integer weights beyond 2**53 the total may miss the
    optimum by what rounding those weights can lose - at most (number of pairs) x ulp(largest magnitude). A larger excess is
    something else and stays a violation."""
    import re
    tables = _tables_of(case)
    big = [abs(x) for w in tables for r in w for x in r if isinstance(x, int) and not isinstance(x, bool) and abs(x) > 2 ** 53]
    if not big:
        return False
    m = re.search(r'total (-?\d+), brute-force optimum (-?\d+)', detail or '')
    if not m:
        return False
    excess = abs(int(m.group(1)) - int(m.group(2)))
    ulp = 2 ** max(0, max(big).bit_length() - 53)
    pairs = max(min(len(w), len(w[0]) if w else 0) for w in tables)
    return excess <= 2 * pairs * ulp


PREDICATES = {'weights_beyond_2p53': _beyond_2p53}


def valid(case):
    if 'tables' in case:
        return isinstance(case['tables'], list) and all(valid({'w': w}) for w in case['tables'])
    w = case.get('w')
    if isinstance(w, dict):
        return set(w) == {'__shifted__'} and len(w['__shifted__']) == 3 and all(isinstance(x, int) for x in w['__shifted__']) \
            and 2 <= w['__shifted__'][0] <= 500 and 0 < w['__shifted__'][1] < w['__shifted__'][0] and w['__shifted__'][2] >= 2
    if not isinstance(w, list) or not all(isinstance(r, list) for r in w):
        return False
    if w and any(len(r) != len(w[0]) for r in w):
        return False
    types = {type(x) for r in w for x in r if x is not None}
    if len(types) > 1:
        return False
    return True


def brute(w):
    r = len(w)
    c = len(w[0]) if w else 0
    best = None
    ties = 0
    if r <= c:
        it = ([(i, cols[i]) for i in range(r)] for cols in itertools.permutations(range(c), r))
    else:
        it = ([(rows[j], j) for j in range(c)] for rows in itertools.permutations(range(r), c))
    for pairs in it:
        s = sum(w[i][j] for i, j in pairs)
        if best is None or s < best:
            best, ties = s, 1
        elif s == best:
            ties += 1
    return best, ties


def brute_lopsided(w):
    """Exact optimum for a table whose short side has k <= 3 items: some optimal assignment gives every short-side item one of
    its k cheapest partners (exchange argument), so brute force over the union of those candidates is exact."""
    r, c = len(w), len(w[0])
    if r < c:
        w = [[w[i][j] for i in range(r)] for j in range(c)]      # make the long side the rows
        r, c = c, r
    cand = set()
    for j in range(c):
        cand.update(sorted(range(r), key=lambda i: (w[i][j], i))[:c])
    rows = sorted(cand)
    return brute([w[i] for i in rows])


@st.composite
def lopsided(draw):
    """very unequal sides (long side beyond the square of the short side, a thousand cells and more) whose short-side items
    agree on their cheapest partners: weight = f(row) + g(col), with ties and duplicated rows"""
    k = draw(st.sampled_from([2, 3, 3]))
    n = draw(st.sampled_from([520, 700, 1030] if k == 2 else [343, 400, 520]))
    f = [draw(st.integers(0, 40)) for _ in range(12)]
    mode = draw(st.sampled_from(['additive', 'additive', 'few-cheap', 'float']))
    g = [draw(st.integers(0, 5)) for _ in range(k)]
    base = draw(st.integers(41, 60))
    cheap = sorted(draw(st.lists(st.integers(0, n - 1), min_size=1, max_size=k, unique=True)))
    w = []
    for i in range(n):
        if mode == 'few-cheap':
            row = [(1 if i in cheap else base) + g[j] for j in range(k)]
        else:
            row = [f[(i * 7) % 12] + (i % 3) + g[j] for j in range(k)]
        if mode == 'float':
            row = [x + 0.5 for x in row]
        w.append(row)
    if draw(st.booleans()):
        w = [[w[i][j] for i in range(n)] for j in range(k)]
    return w


@st.composite
def big_square(draw):
    """a few hundred rows and columns with a known optimum: a cyclic shift of the diagonal costs 0, the diagonal itself costs 1 in total,
    everything else costs 2..1000 (weights are non-negative, so 0 is the minimum)"""
    n = draw(st.sampled_from([120, 380, 401]))
    shift = draw(st.sampled_from([n // 2, n // 2 - 1, 7, n - 1]))
    fill = draw(st.sampled_from([2, 5, 1000]))
    return {'__shifted__': [n, shift, fill]}


def expand_table(w):
    if isinstance(w, dict) and set(w) == {'__shifted__'}:
        n, shift, fill = w['__shifted__']
        # the diagonal as a whole costs exactly 1 (its first cell), the shifted diagonal 0: the two differ by one unit only
        return [[0 if j == (i + shift) % n else ((1 if i == 0 else 0) if i == j else fill) for j in range(n)] for i in range(n)]
    return w


BOUNDARY = [0, 1, 127, 128, 255, 256, 65535, 65536, 2 ** 31 - 1, 2 ** 31, 2 ** 32 - 1, 2 ** 32, 2 ** 62, -1, -128, -129,
            -2 ** 15, -2 ** 31, -2 ** 31 - 1]


def table(elem, maxdim=6):
    return st.integers(0, maxdim).flatmap(
        lambda r: st.integers(0 if r == 0 else 1, maxdim).flatmap(
            lambda c: st.lists(st.lists(elem, min_size=c, max_size=c), min_size=r, max_size=r)))


def strategies():
    small = st.integers(0, 3)
    ints = st.one_of(st.integers(0, 5), st.integers(-5, 5), st.sampled_from(BOUNDARY))
    floats = st.floats(-10, 10, allow_nan=False).map(lambda x: round(x, 2))
    return {
        'small-int-ties': table(small),
        'boundary-int': table(ints, 4),
        'one-huge': table(st.integers(0, 3), 4).flatmap(
            lambda w: st.just(w) if not w or not w[0] else st.tuples(
                st.integers(0, len(w) - 1), st.integers(0, len(w[0]) - 1), st.sampled_from([2 ** 63 - 1, -2 ** 63, 2 ** 63 - 2])
            ).map(lambda t: [[(t[2] if (i, j) == (t[0], t[1]) else x) for j, x in enumerate(r)] for i, r in enumerate(w)])),
        'float': table(floats),
        # floats that differ only far below single precision
        'close-float': table(st.sampled_from([1.0, 1.0 + 2.0 ** -30, 1.0 + 2.0 ** -29, 1.0 - 2.0 ** -31, 2.0 ** 26, 2.0 ** 26 + 1, 2.0 ** 26 + 2,
                                              0.1, 0.1 + 2.0 ** -40, 3.5]), 4),
        'bool': table(st.booleans()),
        # floats beyond 2**53, where x + 1 == x
        'big-float': table(st.sampled_from([1.0, 2.0, 2.0 ** 53, 2.0 ** 53 + 2, 5e17, 9e17, 1e300, 3e300, 0.5]), 4),
        # booleans with missing pairs: the docstring says such tables are rejected with ValueError; either a valid result or
        # that documented rejection is accepted
        'sparse-bool': table(st.one_of(st.none(), st.booleans()), 3),
        'sparse-int': table(st.one_of(st.none(), st.integers(0, 9))),
        'sparse-float': table(st.one_of(st.none(), floats), 4),
        'lopsided': lopsided(),
        # more rows than columns (and the reverse) with integers beyond 2**53 that differ by far more than float64 rounding
        'tall-big-int': st.tuples(st.integers(2, 4), st.integers(1, 2), st.booleans()).flatmap(
            lambda t: st.lists(st.lists(st.sampled_from([2 ** 56, 2 * 2 ** 56, 4 * 2 ** 56, 3 * 2 ** 57, 2 ** 60, 5]), min_size=t[1], max_size=t[1]),
                               min_size=t[0] + t[1], max_size=t[0] + t[1]).map(
                lambda w: [[w[i][j] for i in range(len(w))] for j in range(len(w[0]))] if t[2] else w)),
        'big-square': big_square(),
    }


ENUM = {
    'quick': [('int', (0, 1, 2), 3, 3), ('bool', (False, True), 3, 3), ('sparse', (None, 0, 1), 2, 3)],
    'thorough': [('int', (0, 1, 2), 3, 3), ('int', (0, 1), 3, 4), ('bool', (False, True), 3, 3), ('sparse', (None, 0, 1), 3, 3)],
}


def jobs(tier):
    js = []
    n = 120 if tier == 'quick' else 4000
    for s in range(16):
        for name in list(strategies()) + ['history']:
            js.append({'kind': 'gen', 'strategy': name, 'n': n, 'shard': s})
        js.append({'kind': 'enum', 'tier': tier, 'shard': s})
    return js


@st.composite
def histories(draw):
    """2-3 tables of different element types whose extremes coincide (ints 0..k, then floats in [0.0, k], then booleans)"""
    k = draw(st.sampled_from([1, 1, 2, 3]))
    dims = st.tuples(st.integers(1, 3), st.integers(1, 3))

    def tab(elem):
        r, c = draw(dims)
        rows = [[draw(elem) for _ in range(c)] for _ in range(r)]
        return rows
    ints = tab(st.integers(0, k))
    ints[0][0] = 0
    ints[-1][-1] = k
    fl = tab(st.sampled_from([0.0, float(k), 0.25, 0.5, 0.75, k - 0.25, 0.1]))
    fl[0][0] = 0.0
    fl[-1][-1] = float(k)
    bools = tab(st.booleans())
    order = draw(st.permutations([ints, fl, bools] if k == 1 else [ints, fl]))
    return {'tables': list(order)}


def run_job(job, seed, sink):
    if job['kind'] == 'gen' and job['strategy'] == 'history':
        hyp_drive(histories(), job['n'], seed, sink)
        return
    if job['kind'] == 'gen':
        cnt = [0]

        def mk(w):
            cnt[0] += 1
            return {'w': w, 'quiet': True} if cnt[0] % 2 else {'w': w}       # every other table under the quiet default printer
        hyp_drive(strategies()[job['strategy']].map(mk), job['n'] if job['strategy'] not in ('lopsided', 'big-square') else max(3 if job['strategy'] == 'big-square' else 6, job['n'] // (40 if job['strategy'] == 'big-square' else 20)), seed, sink)
        return
    i = 0
    for _, vals, mr, mc in ENUM[job['tier']]:
        for r in range(0, mr + 1):
            for c in range(0 if r == 0 else 1, mc + 1):
                dims = [(r, c)] if r == c else [(r, c), (c, r)] if (c <= mr and r <= mc and r < c) else [(r, c)]
                for rr, cc in dims:
                    for flat in itertools.product(vals, repeat=rr * cc):
                        if i % 16 == job['shard']:
                            w = [list(flat[k * cc:(k + 1) * cc]) for k in range(rr)]
                            sink.fast({'w': w, 'quiet': True} if (i // 16) % 2 or not any(flat) else {'w': w})
                        i += 1


def check(case):
    if 'tables' in case:
        # a short history of calls in one process: results must not depend on which tables were solved before
        out = Outcome()
        for i, w in enumerate(case['tables']):
            o = check({'w': w, 'quiet': bool(case.get('quiet'))})
            for k, d in o.failures:
                out.fail(k, f"(table {i + 1} of a history of {len(case['tables'])}) {d}")
            out.nontrivial = out.nontrivial or o.nontrivial
            if out.failures:
                break
        out.label('history')
        return out
    if case.get('quiet') and not case.get('_inner'):
        old = common.default_printer_quiet()
        common.set_default_printer_quiet(True)
        try:
            o = check(dict(case, _inner=True))
        finally:
            common.set_default_printer_quiet(old)
        o.label('quiet-printer')
        return o
    out = Outcome()
    known_zero = isinstance(case['w'], dict)
    w = expand_table(case['w'])
    wd = repr(case['w']) if known_zero else (repr(w) if len(w) * (len(w[0]) if w else 0) <= 64 else repr(w)[:300] + '...')
    r = len(w)
    c = len(w[0]) if r else 0
    sparse = any(x is None for row in w for x in row)
    vals = [x for row in w for x in row if x is not None]
    kinds = {type(x).__name__ for x in vals}
    try:
        with guard('min_weight_bipartite_matching'):
            m = min_weight_bipartite_matching(list(range(r)), list(range(c)), lambda i, j: w[i][j])
    except ValueError:
        if sparse and kinds == {'bool'}:
            out.label('sparse-bool-rejected-as-documented')
            return out
        raise
    tos = [t for t, _ in m.values()]
    if len(set(tos)) != len(tos):
        out.fail('not-one-to-one', f"table {wd}: result {dict(m)!r} uses a column twice")
        return out
    for f, (t, wt) in m.items():
        if not (0 <= f < r and 0 <= t < c):
            out.fail('out-of-range', f"table {wd}: result {dict(m)!r}")
            return out
        if w[f][t] is None:
            out.fail('uses-missing-pair', f"table {wd}: pair ({f},{t}) does not exist but is in the result {dict(m)!r}")
            return out
        if wt != w[f][t] or type(wt) is not type(w[f][t]):
            out.fail('wrong-weight-reported', f"table {wd}: pair ({f},{t}) reported with weight {wt!r} ({type(wt).__name__}), the table says {w[f][t]!r}")
            return out
    ties = 0
    if not sparse and r and c:
        if len(m) != min(r, c):
            out.fail('not-maximum-cardinality', f"table {wd}: {len(m)} pairs, {min(r, c)} possible")
            return out
        tot = sum(wt for _, wt in m.values())
        b, ties = (0, 2) if known_zero else (brute(w) if max(r, c) <= 8 else brute_lopsided(w))
        if isinstance(tot, float):
            ok = abs(tot - b) <= 1e-12 * max(1.0, abs(b))      # at most six doubles are added on either side
        else:
            ok = tot == b
        if not ok:
            out.fail('not-optimal', f"table {wd}: total {tot!r}, brute-force optimum {b!r}; result {dict(m)!r}")
    if kinds == {'int'} and vals:
        lo, hi = min(vals), max(vals)
        import numpy as np
        with guard('get_dtype'):
            dt = get_dtype(lo, hi)
        info = np.iinfo(dt)
        if lo < info.min or hi > info.max:
            out.fail('dtype-too-small', f"get_dtype({lo}, {hi}) = {dt}, which cannot hold both")
    out.nontrivial = bool(r and c) and (r != c or ties > 1 or sparse)
    out.label('type:' + ('/'.join(sorted(kinds)) or 'empty'), 'sparse' if sparse else 'complete',
              'square' if r == c else 'rectangular')
    if ties > 1:
        out.label('tie-on-optimum')
    out.info = {'shape': [r, c], 'matched': len(m)}
    return out
