"""C18 - Python objects are converted faithfully and cycles never hang."""
from collections import Counter

from hypothesis import strategies as st

from .. import common, gen
from ..canon import plain
from ..core import Bad, Outcome, guard, hyp_drive

import graphtage
from graphtage import builder, pydiff
from graphtage import json as gjson
from graphtage.utils import HashableCounter

ID = 'C18'
TITLE = 'Python objects are converted faithfully and cycles never hang'
LEVEL = 'exploration'
TECHNIQUE = ('Hypothesis-generated object graphs (trees, DAGs with shared sub-objects, back-patched cycles, custom '
             'objects with inherited members, sets of look-alike objects, bytes, frozensets) x build options, against a reference '
             'conversion; differential across the three builder entry points and against opposite-order twins')
RULE = ("A case is an object graph given as a node table: each node is a scalar, list, tuple, dict (str/int keys), "
        "set/frozenset (of hashable scalars or scalar tuples, or of custom objects some of which carry equal data) or a custom object with attributes (plain, or of a class that inherits class-level constants and a property over two levels); lists, dicts and "
        "objects may reference any node (so shared sub-objects and self-/mutual cycles at any depth arise by "
        "back-patching), tuples and sets reference earlier nodes; x dict strategy x list-edit mode x "
        "{check_for_cycles, ignore_cycles}. Oracle, acyclic graphs, for every entry point that supports the types "
        "(json.build_tree, BasicBuilder().build_tree, pydiff.build_tree): t.to_obj() equals the reference conversion "
        "(tuples -> lists, sets -> multisets) with strict type comparison; the entry points give == trees with equal "
        "canonical values; every mapping and list node carries the flags the build options ask for, at every depth; a BasicBuilder subclass with its own handler for a tuple subclass is honoured after the base class was used, also for an unregistered subclass of that subclass (most specialised registered ancestor wins); to_obj() returns a value the caller may destroy without changing the next to_obj(); every custom object converts to its class name and exactly its public members (instance attributes plus every non-dunder name of its class and base classes), each converted as on its own; the same object graph with sets and mappings filled in the opposite order gives == trees; set members and mapping keys include bytes with the text of a str member and frozensets; every set converts to a multiset with as many children as members, pairwise == to the members' own conversions; t.copy() is == to t, has an equal to_obj() and shares no node object with t; shared "
        "sub-objects must not raise a cycle error. Cyclic graphs with cycle checking on: the Builder entry points "
        "raise ValueError, or with ignore_cycles produce a tree containing a CyclicReference placeholder, within the "
        "loop budget; json.build_tree must terminate with an exception. Non-trivial: a graph with sharing or a cycle, "
        "or a mapping under a non-default strategy. Distinct by case hash.")
ASSUMPTIONS = [
    "cyclic input with cycle checking disabled is a caller precondition violation and is not generated",
    "termination is decided by the loop-iteration budget and Python's recursion limit, never by wall clock",
    "custom objects are only given to pydiff.build_tree (the other entry points document no support for them)",
]
MANIFEST_TEXT = ("Differential and round-trip exploration of the three Python-object entry points over generated object "
                 "graphs including DAGs with sharing and cycles of every shape the node-table encoding can express, for "
                 "every build option; copy() is checked for equality and node disjointness.")
MANIFEST_NOTE = "Trusts the reference conversion and the strict comparison in this module."
DESIGN_REF = 'DESIGN.md section 3, C18'
SHRINK = {'lists': ['nodes'], 'enums': {'ds': 'auto', 'le': 'on', 'cycles': 'check'}}


def _has_tuple(e):
    return isinstance(e, list) and bool(e) and (e[0] == 't' or (e[0] == 'fs' and any(_has_tuple(x) for x in e[1:])))


def _set_with_tuple(case, key, detail):
    return any(nd[0] in ('set', 'frozenset') and any(_has_tuple(e) for e in nd[1]) for nd in case.get('nodes', [])
               if isinstance(nd, list) and len(nd) == 2)


PREDICATES = {'set_contains_tuple': _set_with_tuple}

SCALARS = st.one_of(st.none(), st.booleans(), st.integers(-5, 5), st.sampled_from([0.5, -2.5, 1e10]), st.sampled_from(['', 'a', 'ab', 'b', '1']))
HSCAL = st.one_of(st.integers(-3, 3), st.sampled_from(['a', 'b', 'ab']), st.none(), st.sampled_from([0, 8, 16, 1, 9]),
                  # bytes with the same text as a str in the pool (same hash in CPython, different value)
                  st.sampled_from([['b', 'a'], ['b', 'ab'], ['b', 'b']]))


def hval(e, reverse=False):
    """decodes a hashable element of a case: ['b', text] -> bytes, ['t', ...] -> tuple, ['fs', ...] -> frozenset (filled in the
    opposite order with reverse), scalar -> itself"""
    if isinstance(e, list):
        if e and e[0] == 'b':
            return e[1].encode('ascii')
        if e and e[0] == 'fs':
            xs = [hval(x, reverse) for x in e[1:]]
            return frozenset(reversed(xs) if reverse else xs)
        return tuple(hval(x, reverse) for x in e[1:])
    return e


class Obj:
    """custom object for pydiff"""
    pass


class ShapeBase:
    """class-level data and a property that subclasses inherit without redefining them"""
    units = 'cm'
    sides = 4

    @property
    def label(self):
        return 'shape'


class MidShape(ShapeBase):
    sides = 3           # overrides one inherited constant, adds another
    closed = True


class DerivedObj(MidShape):
    """custom object whose public state is partly inherited from two levels of base classes"""
    pass


def public_state(o):
    """independent statement of what an object's public members are: the instance's own attributes plus every non-dunder
    name defined by its class or any base class (the most derived definition wins through getattr)"""
    names = set(vars(o))
    for cls in type(o).__mro__:
        if cls is object:
            continue
        names.update(vars(cls))
    return {n: getattr(o, n) for n in names if not n.startswith('__')}


def scribble(v):
    """destroys a value returned by to_obj() in place: whatever the caller does to it must not reach the tree"""
    if isinstance(v, list):
        for x in v:
            scribble(x)
        v.clear()
    elif isinstance(v, dict):           # includes Counter / HashableCounter
        try:
            for x in list(v.values()):
                scribble(x)
            v.clear()
        except (TypeError, AttributeError):
            pass


@st.composite
def graphs(draw, max_nodes=8, allow_cycles=True, allow_obj=True):
    n = draw(st.integers(1, max_nodes))
    nodes = []
    cyc = allow_cycles and draw(st.integers(0, 3)) == 0
    for i in range(n):
        kinds = ['scalar', 'scalar', 'list', 'list', 'dict', 'dict', 'tuple', 'tuple', 'set']
        if allow_obj:
            kinds += ['obj', 'obj', 'oset', 'dobj']
        k = draw(st.sampled_from(kinds))
        hi = n - 1 if cyc else max(i - 1, -1)        # acyclic graphs only reference earlier nodes (sharing is still possible)
        refs = st.integers(0, hi) if hi >= 0 else None
        if k == 'scalar' or (refs is None and k in ('tuple',)):
            nodes.append(['scalar', draw(SCALARS)])
        elif k == 'list':
            nodes.append(['list', draw(st.lists(refs, max_size=3)) if refs is not None else []])
        elif k == 'tuple':
            lo = st.integers(0, i - 1) if i > 0 else None
            nodes.append(['tuple', draw(st.lists(lo, max_size=3)) if lo is not None else []])
        elif k == 'dict':
            keys = draw(st.lists(st.one_of(st.sampled_from(['a', 'b', 'k', '']), st.integers(0, 3), st.sampled_from([['b', 'a'], ['b', 'k']])),
                                 max_size=3, unique_by=lambda x: (type(x).__name__, repr(x))))
            nodes.append(['dict', [[kk, draw(refs)] for kk in keys] if refs is not None else []])
        elif k == 'set':
            elems = draw(st.lists(st.one_of(HSCAL, HSCAL, st.lists(HSCAL, max_size=2).map(lambda t: ['t'] + t),
                                            st.lists(HSCAL, min_size=1, max_size=3).map(lambda t: ['fs'] + t),
                                            st.sampled_from([['fs', 0, 8], ['fs', 8, 16, 0], ['fs', 1, 9]])), max_size=3))
            nodes.append([draw(st.sampled_from(['set', 'frozenset'])), elems])
        elif k == 'dobj':
            attrs = draw(st.lists(st.sampled_from(['x', 'y', 'name', 'units']), max_size=2, unique=True))
            nodes.append(['dobj', [[a, draw(refs)] for a in attrs] if refs is not None else []])
        elif k == 'oset':
            # a set of custom objects (hashable by identity): distinct members may carry equal data
            earlier = [j for j in range(i) if nodes[j][0] in ('obj', 'dobj')]
            if not earlier:
                nodes.append(['obj', []])
            else:
                members = draw(st.lists(st.sampled_from(earlier), min_size=1, max_size=3))
                twins = [j for j in earlier if nodes[j][1] == nodes[members[0]][1] and j not in members]
                nodes.append(['oset', members + twins[:2]])
        else:
            earlier = [j for j in range(i) if nodes[j][0] == 'obj']
            if earlier and draw(st.booleans()):
                nodes.append(['obj', [list(p) for p in nodes[draw(st.sampled_from(earlier))][1]]])      # same data, another object
            else:
                attrs = draw(st.lists(st.sampled_from(['x', 'y', 'name']), max_size=2, unique=True))
                nodes.append(['obj', [[a, draw(refs)] for a in attrs] if refs is not None else []])
    return nodes


@st.composite
def cases(draw, max_nodes):
    nodes = draw(graphs(max_nodes))
    ds, le = draw(gen.options)
    case = {'nodes': nodes, 'root': len(nodes) - 1, 'ds': ds, 'le': le, 'cycles': draw(st.sampled_from(['check', 'check', 'ignore']))}
    if ds == 'none' and draw(st.booleans()):
        case['api_none'] = True         # BuildOptions(allow_key_edits=False), auto_match_keys left at its default
    return case


def jobs(tier):
    n, mn = (220, 7) if tier == 'quick' else (4000, 10)
    return [{'n': n, 'max_nodes': mn, 'shard': s} for s in range(16)]


def run_job(job, seed, sink):
    hyp_drive(cases(job['max_nodes']), job['n'], seed, sink)


def valid(case):
    nodes = case.get('nodes')
    if not isinstance(nodes, list) or not nodes:
        return False
    n = len(nodes)
    for i, nd in enumerate(nodes):
        if not (isinstance(nd, list) and len(nd) == 2):
            return False
        k, v = nd
        if k == 'scalar':
            if isinstance(v, (list, dict)):
                return False
        elif k == 'list':
            if not all(isinstance(r, int) and 0 <= r < n for r in v):
                return False
        elif k == 'tuple':
            if not all(isinstance(r, int) and 0 <= r < i for r in v):
                return False
        elif k in ('dict', 'obj', 'dobj'):
            if not all(isinstance(p, list) and len(p) == 2 and isinstance(p[1], int) and 0 <= p[1] < n for p in v):
                return False
            if len({(type(p[0]).__name__, repr(p[0])) for p in v}) != len(v):
                return False
            if not all(isinstance(p[0], (str, int)) or (k == 'dict' and isinstance(p[0], list) and len(p[0]) == 2 and p[0][0] == 'b'
                                                        and isinstance(p[0][1], str) and p[0][1].isascii()) for p in v):
                return False
            if k in ('obj', 'dobj') and not all(isinstance(p[0], str) and p[0].isidentifier() for p in v):
                return False
        elif k in ('set', 'frozenset'):
            pass
        elif k == 'oset':
            if not v or not all(isinstance(r, int) and 0 <= r < i and nodes[r][0] in ('obj', 'dobj') for r in v):
                return False
        else:
            return False
    return case.get('cycles') in ('check', 'ignore')


def materialise(nodes, reverse=False):
    """-> list of python objects (one per node); with reverse, sets and dicts are filled in the opposite order (equal objects)"""
    rv = (lambda xs: list(reversed(list(xs)))) if reverse else list
    objs = [None] * len(nodes)
    for i, (k, v) in enumerate(nodes):
        if k == 'scalar':
            objs[i] = v
        elif k == 'list':
            objs[i] = []
        elif k == 'dict':
            objs[i] = {}
        elif k == 'obj':
            objs[i] = Obj()
        elif k == 'dobj':
            objs[i] = DerivedObj()
        elif k in ('set', 'frozenset'):
            el = rv(hval(e, reverse) for e in v)
            if k == 'set':
                objs[i] = set()
                for x in el:
                    objs[i].add(x)
            else:
                objs[i] = frozenset(el)
        elif k == 'oset':
            objs[i] = frozenset(objs[r] for r in v) if len(v) % 2 else set(objs[r] for r in v)
        elif k == 'tuple':
            objs[i] = tuple(objs[r] for r in v)     # earlier nodes only; lists/dicts among them are filled below
    for i, (k, v) in enumerate(nodes):
        if k == 'list':
            objs[i].extend(objs[r] for r in v)
        elif k == 'dict':
            for kk, r in rv(v):
                objs[i][hval(kk)] = objs[r]
        elif k in ('obj', 'dobj'):
            for a, r in v:
                setattr(objs[i], a, objs[r])
    return objs


def reachable(nodes, root):
    seen, order = set(), []
    stack = [root]
    while stack:
        i = stack.pop()
        if i in seen:
            continue
        seen.add(i)
        order.append(i)
        k, v = nodes[i]
        if k in ('list', 'tuple', 'oset'):
            stack.extend(v)
        elif k in ('dict', 'obj', 'dobj'):
            stack.extend(r for _, r in v)
    return seen


def graph_facts(nodes, root):
    """(cyclic, shared, kinds) over the part reachable from root. A shared node is a *container* reached twice."""
    reach = reachable(nodes, root)
    color = {}
    cyclic = False

    def children(i):
        k, v = nodes[i]
        if k in ('list', 'tuple', 'oset'):
            return list(v)
        if k in ('dict', 'obj', 'dobj'):
            return [r for _, r in v]
        return []

    def dfs(i):
        nonlocal cyclic
        stack = [(i, iter(children(i)))]
        color[i] = 1
        while stack:
            node, it = stack[-1]
            nxt = next(it, None)
            if nxt is None:
                color[node] = 2
                stack.pop()
                continue
            c = color.get(nxt, 0)
            if c == 1:
                cyclic = True
            elif c == 0:
                color[nxt] = 1
                stack.append((nxt, iter(children(nxt))))
    dfs(root)
    indeg = Counter()
    for i in reach:
        for c in children(i):
            indeg[c] += 1
    shared = any(indeg[i] >= 2 and nodes[i][0] != 'scalar' for i in reach)
    kinds = {nodes[i][0] for i in reach}
    return cyclic, shared, kinds


def expected(o, memo=None):
    if isinstance(o, (list, tuple)):
        return [expected(x) for x in o]
    if isinstance(o, dict):
        return {k: expected(v) for k, v in o.items()}
    if isinstance(o, (set, frozenset)):
        return ('multiset', sorted(repr(expected(x)) for x in o))
    if isinstance(o, (Obj, ShapeBase)):
        st_ = public_state(o)
        return ('obj', type(o).__name__, {a: expected(st_[a]) for a in sorted(st_)})
    return o


def norm(o):
    if isinstance(o, HashableCounter) or isinstance(o, Counter):
        return ('multiset', sorted(repr(norm(x)) for x in o.elements()))
    if isinstance(o, list):
        return [norm(x) for x in o]
    if isinstance(o, dict):
        return {k: norm(v) for k, v in o.items()}
    if isinstance(o, tuple):
        return tuple(norm(x) for x in o)
    return o


def strict_eq(a, b):
    if type(a) is not type(b):
        return False
    if isinstance(a, list) or isinstance(a, tuple):
        return len(a) == len(b) and all(strict_eq(x, y) for x, y in zip(a, b))
    if isinstance(a, dict):
        return len(a) == len(b) and all(any(type(k) is type(k2) and k == k2 and strict_eq(a[k], b[k2]) for k2 in b) for k in a)
    if isinstance(a, float) and a != a:
        return b != b
    return a == b


def own_nodes(t):
    out = []
    stack = [t]
    while stack:
        x = stack.pop()
        out.append(x)
        stack.extend(x.children())
    return out


def contains_placeholder(t):
    return any(isinstance(n, builder.CyclicReference) for n in own_nodes(t))


class Pair(tuple):
    pass


class SubPair(Pair):
    """not registered anywhere: must be handled by the most specialised registered ancestor (Pair, not tuple)"""
    pass


class TaggingBuilder(builder.BasicBuilder):
    """A user-style subclass that registers its own, more specific handler for a type the base class also handles: the
    most specialised registration must win (type dispatch by MRO), whatever was built before in the process."""

    @builder.Builder.expander(Pair)
    def expand_pair(self, obj):
        yield from obj

    @builder.Builder.builder(Pair)
    def build_tagged_tuple(self, obj, children):
        return graphtage.ListNode([graphtage.StringNode('#tuple')] + list(children))


def pairify(o):
    """the same acyclic object with every tuple replaced by an instance of the tuple subclass Pair"""
    if isinstance(o, tuple):
        return (SubPair if len(o) % 2 else Pair)(pairify(x) for x in o)
    if isinstance(o, list):
        return [pairify(x) for x in o]
    if isinstance(o, dict):
        return {k: pairify(v) for k, v in o.items()}
    return o


def expected_tagged(o):
    if isinstance(o, tuple):
        return ['#tuple'] + [expected_tagged(x) for x in o]
    if isinstance(o, list):
        return [expected_tagged(x) for x in o]
    if isinstance(o, dict):
        return {k: expected_tagged(v) for k, v in o.items()}
    if isinstance(o, (set, frozenset)):
        return ('multiset', sorted(repr(expected_tagged(x)) for x in o))
    return o


def option_flags_ok(t, ds, le):
    """Every mapping / list node of the tree must carry the flags the build options ask for, at every depth."""
    from graphtage import DictNode, FixedKeyDictNode, ListNode, MappingNode
    for n in own_nodes(t):
        if isinstance(n, MappingNode):
            if isinstance(n, FixedKeyDictNode) != (ds == 'none'):
                return f"{type(n).__name__} under dictionary strategy {ds}"
            if isinstance(n, DictNode) and bool(n.auto_match_keys) != (ds == 'auto'):
                return f"DictNode.auto_match_keys={n.auto_match_keys} under dictionary strategy {ds}"
        elif type(n) is ListNode:
            if bool(n.allow_list_edits) != (le != 'off') or bool(n.allow_list_edits_when_same_length) != (le != 'same'):
                return (f"ListNode(allow_list_edits={n.allow_list_edits}, allow_list_edits_when_same_length="
                        f"{n.allow_list_edits_when_same_length}) under list-edit mode {le}")
    return None


def check(case):
    out = Outcome()
    nodes, root = case['nodes'], case.get('root', len(case['nodes']) - 1)
    if not (0 <= root < len(nodes)):
        root = len(nodes) - 1
    objs = materialise(nodes)
    o = objs[root]
    cyclic, shared, kinds = graph_facts(nodes, root)
    ds, le = case.get('ds', 'auto'), case.get('le', 'on')
    ignore = case.get('cycles') == 'ignore'
    opts = common.build_options(ds, le, api_none=bool(case.get('api_none')), check_for_cyces=True, ignore_cycles=ignore)
    has_obj = bool(kinds & {'obj', 'oset', 'dobj'})
    has_set = bool(kinds & {'set', 'frozenset', 'oset'})
    reach = reachable(nodes, root)
    has_bytes = any((nodes[i][0] == 'dict' and any(isinstance(p[0], list) for p in nodes[i][1])) or
                    (nodes[i][0] in ('set', 'frozenset') and 'b' in repr(nodes[i][1]) and "['b'," in repr(nodes[i][1])) for i in reach)
    entries = [('pydiff', lambda: pydiff.build_tree(o, opts))]
    if not has_obj:
        entries.append(('basic', lambda: builder.BasicBuilder(opts).build_tree(o)))
        if not has_set and not has_bytes:         # (json.build_tree decodes bytes to str by design)
            entries.append(('json', lambda: gjson.build_tree(o, opts)))
    out.label('cyclic' if cyclic else ('shared' if shared else 'tree'), 'ds:' + ds, 'cycles:' + case.get('cycles', 'check'))
    for k in sorted(kinds):
        out.label('has:' + k)
    out.nontrivial = cyclic or shared or (('dict' in kinds or 'obj' in kinds) and ds != 'auto')

    if cyclic:
        import sys
        for name, f in entries:
            common.LOOPS.reset(3000000)
            old_limit = sys.getrecursionlimit()
            try:
                if name == 'json':
                    # recursion to the interpreter's limit is how json.build_tree ends on a cycle; every level creates a
                    # tqdm object, so keep the limit low to keep the case cheap (harness cost only)
                    sys.setrecursionlimit(400)
                try:
                    t = f()
                finally:
                    sys.setrecursionlimit(old_limit)
            except Bad:
                raise
            except RecursionError:
                if name == 'json':
                    continue                  # json.build_tree documents no cycle contract: terminating with an exception is enough
                out.fail(f'cycle-recursion-error:{name}', f"{name}: RecursionError instead of a cycle error")
                continue
            except ValueError as e:
                if ignore and name != 'json':
                    out.fail(f'cycle-error-despite-ignore:{name}', f"{name} with ignore_cycles raised ValueError: {str(e)[:120]}")
                continue
            except Exception as e:
                if name == 'json':
                    continue
                out.fail(f'cycle-other-exception:{name}', f"{name}: {type(e).__name__}: {str(e)[:120]}")
                continue
            if name == 'json':
                out.fail('cycle-accepted:json', 'json.build_tree returned a tree for a cyclic object')
            elif not ignore:
                out.fail(f'cycle-not-reported:{name}', f"{name} returned a tree for a cyclic object although cycles are checked and not ignored")
            elif not contains_placeholder(t):
                out.fail(f'cycle-no-placeholder:{name}', f"{name} with ignore_cycles returned a tree without a CyclicReference placeholder")
        out.info = {'entries': [n for n, _ in entries]}
        return out

    exp = expected(o)
    trees = {}
    for name, f in entries:
        with guard(f'{name}.build_tree'):
            try:
                t = f()
            except ValueError as e:
                if 'cycle' in str(e).lower():
                    out.fail(f'sharing-mistaken-for-cycle:{name}', f"{name}: {str(e)[:160]}")
                    continue
                raise
        trees[name] = t
        bad = option_flags_ok(t, ds, le)
        if bad:
            out.fail(f'options-not-applied:{name}', f"{name}: tree for {exp!r} contains {bad}")
        if has_obj:
            continue            # PyObj.to_obj() has its own shape; only equality/copy are checked for custom objects
        with guard(f'{name}.to_obj'):
            got = norm(t.to_obj())
        if not strict_eq(got, exp):
            out.fail(f'to_obj-differs:{name}', f"{name}: to_obj() = {got!r}, original converts to {exp!r}")
        else:
            # what a caller does to the returned value must not change what the tree says next time
            with guard(f'{name}.to_obj twice'):
                scribble(t.to_obj())
                again = norm(t.to_obj())
            if not strict_eq(again, exp):
                out.fail(f'to_obj-not-fresh:{name}', f"{name}: after the caller emptied the value returned by to_obj(), to_obj() = {again!r}, expected {exp!r}")
    if not has_obj and not has_set and 'tuple' in kinds:
        # a subclass handler for tuples, used *after* the base class has already converted this object
        with guard('TaggingBuilder.build_tree'):
            o2 = pairify(o)
            builder.BasicBuilder(opts).build_tree(o2)          # the base class meets the subtype first (handled as a tuple)
            tt = TaggingBuilder(opts).build_tree(o2)
            got = norm(tt.to_obj())
        if not strict_eq(got, expected_tagged(o)):
            out.fail('subclass-handler-ignored', f"a BasicBuilder subclass with its own tuple builder produced {got!r}, expected {expected_tagged(o)!r}")
    # the same object graph with every set and mapping filled in the opposite order is an equal object: equal trees
    if not has_obj and (has_set or 'dict' in kinds):
        o_rev = materialise(nodes, reverse=True)[root]
        for name, f in (('pydiff', lambda x: pydiff.build_tree(x, opts)), ('basic', lambda x: builder.BasicBuilder(opts).build_tree(x))):
            if name not in trees:
                continue
            with guard(f'{name}.build_tree of the same object filled in the opposite order'):
                t_rev = f(o_rev)
                same = (t_rev == trees[name]) and (trees[name] == t_rev)
            if not same:
                out.fail(f'insertion-order-changes-tree:{name}', f"{name}: the trees of two equal objects (sets / mappings filled in opposite orders) "
                                                                f"compare unequal: {exp!r}")
                break
        out.label('opposite-order-twin-checked')
    # a custom object converts to its class name plus *all* of its public state, inherited class-level members included
    for i in sorted(reachable(nodes, root)):
        if nodes[i][0] not in ('obj', 'dobj'):
            continue
        with guard('pydiff.build_tree of a custom object and of its members'):
            to = pydiff.build_tree(objs[i], opts)
            want = public_state(objs[i])
            have = {k.object: v for k, v in to.attrs.items()} if hasattr(to, 'attrs') else None
            bad = None
            if have is None:
                bad = f"converts to a {type(to).__name__}"
            elif set(have) != set(want):
                bad = f"has members {sorted(have)}, the object's public members are {sorted(want)}"
            elif to.class_name.object != type(objs[i]).__name__:
                bad = f"is named {to.class_name.object!r}"
            else:
                for nme in sorted(want):
                    if not (have[nme] == pydiff.build_tree(want[nme], opts)):
                        bad = f"member {nme} converts differently inside the object than on its own"
                        break
        if bad:
            out.fail('object-state-lost:pydiff', f"pydiff: the tree of a {type(objs[i]).__name__} object {bad}")
            break
        out.label('object-state-checked')
    # a set converts to the multiset of its members' conversions: same number of members, pairwise == (whatever the members are)
    for i in sorted(reachable(nodes, root)):
        if nodes[i][0] not in ('set', 'frozenset', 'oset'):
            continue
        for name, f in (('pydiff', lambda x: pydiff.build_tree(x, opts)),) + \
                ((('basic', lambda x: builder.BasicBuilder(opts).build_tree(x)),) if nodes[i][0] != 'oset' and not has_obj else ()):
            with guard(f'{name}.build_tree of a set and of its members'):
                ts = f(objs[i])
                kids = list(ts.children())
                members = [f(m) for m in objs[i]]
                rest = list(members)
                unmatched = 0
                for kid in kids:
                    j = next((j for j, m in enumerate(rest) if m == kid), None)
                    if j is None:
                        unmatched += 1
                    else:
                        del rest[j]
            if len(kids) != len(members) or unmatched or rest:
                out.fail(f'set-members-lost:{name}', f"{name}: a set of {len(members)} members converts to a {type(ts).__name__} with {len(kids)} "
                                                    f"children ({unmatched} of them equal to no member's conversion): {expected(objs[i])!r}")
                break
        out.label('set-members-checked')
    names = list(trees)
    for x, y in zip(names, names[1:]):
        with guard('compare entry points'):
            eq = trees[x] == trees[y]
            px, py = plain_or_none(trees[x]), plain_or_none(trees[y])
        if not eq:
            out.fail(f'entry-points-disagree:{x}-vs-{y}', f"{x} and {y} build unequal trees for {exp!r}")
        elif px is not None and py is not None and px != py:
            out.fail(f'entry-points-disagree:{x}-vs-{y}', f"{x} builds {px!r}, {y} builds {py!r}")
    for name, t in trees.items():
        with guard(f'{name}.copy'):
            c = t.copy()
            eq = (c == t)
        if not eq:
            out.fail(f'copy-not-equal:{name}', f"{name}: copy() of the tree for {exp!r} is not == to it")
            continue
        if not has_obj:
            with guard(f'{name}.copy.to_obj'):
                got = norm(c.to_obj())
            if not strict_eq(got, exp):
                out.fail(f'copy-to_obj-differs:{name}', f"{name}: copy().to_obj() = {got!r}, expected {exp!r}")
        ids = {id(n) for n in own_nodes(t)}
        if any(id(n) in ids for n in own_nodes(c)):
            out.fail(f'copy-shares-nodes:{name}', f"{name}: copy() shares node objects with the original")
    out.info = {'entries': names}
    return out


def plain_or_none(t):
    try:
        return plain(t, True)
    except TypeError:
        return None
