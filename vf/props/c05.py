"""C05 - results do not depend on how the edit API is driven or on status settings."""
import itertools
from collections import Counter

from hypothesis import strategies as st

from .. import common, gen
from ..canon import plain
from ..core import Outcome, guard, hyp_drive
from ..script import Problems, signature, walk

from graphtage import CompoundEdit
from graphtage.graphtage import StringEdit

ID = 'C05'
TITLE = 'Results do not depend on how the edit API is driven or on status settings'
LEVEL = 'exploration'
TECHNIQUE = ('stateful / history-based: Hypothesis-generated operation sequences over the public edit API (handles into '
             'nested sub-edits, bursts of refinement without reads) and bounded-exhaustive interleavings on fixed pairs, '
             'x quiet/colour printer settings, compared with a reference run under the canonical driver; suspended listings, len()/bool() '
             'and every has_non_zero_cost() answer are part of the histories')
RULE = ("[also: len(edit) and bool(edit) are history operations too; a 'lazy' operation starts a listing (edits() is a generator), takes 0-3 items and leaves it suspended while the history continues; finished at the end it must name exactly the sub-edits a fresh listing names; every has_non_zero_cost() answer given during a history is compared with the edit's final cost; a multiset family (lists read as multisets, with duplicates); sub-edit listings repeated within a history must name the same edits; a family of lists of records with long keys exercises cost ties in the last alignment cell; a high-volume 'light' job (record lists and lists of variants of one or two base records) compares only three drivers: refine to the end, list sub-edits first then refine, TreeNode.diff] A case is (pair, options, printer config {quiet, colour}, history). The history is a list of operations "
        "[bounds | tighten xk with no read in between | is_complete | valid | has_non_zero_cost | edits (sub-edits join "
        "the handle pool, so nested edits are driven directly and out of order) | edits twice], each applied to a handle "
        "drawn from the pool (initially the root edit). Generated: up to 30 (quick) / 80 (thorough) operations with rule "
        "weights favouring refinement bursts, over C01 pairs and a nested-list generator (lists of lists of lists). "
        "Bounded exhaustive (also: the mapping-holding pairs under strategy none with len() / bool() among eight root operations up to length 3 / 4): for 44 fixed small pairs all sequences of the six root operations (bounds, tighten, is_complete, edits, has_non_zero_cost, lazy listing) up to length 4 for the first 20 pairs and 3 for the others (quick) / "
        "5 (thorough). History-free sub-check: diff(), edited_cost(), get_all_edits() under every printer configuration, and their totals against the canonical driver's final cost. "
        "Oracle: no exception escapes any operation; after finishing with the canonical driver the final cost and the "
        "script signature equal those of a fresh copy refined by the canonical driver under the default printer. "
        "Non-trivial: a history with >= 2 consecutive refinements without a read, or edits() before completion, on an "
        "edit with a nested sequence edit. Distinct by case hash.")
ASSUMPTIONS = [
    "the library's 'quiet' branch is reached by toggling `quiet` on the import-time DEFAULT_PRINTER object that tree.py, levenshtein.py and json.py captured",
    "script equality is compared through the canonical-value signature of vf/script.py",
    "histories are bounded: <= 30 / 80 operations, bursts of <= 6 refinements",
]
MANIFEST_TEXT = ("History exploration of the public edit protocol: random operation sequences on the root edit and on nested "
                 "sub-edit handles (including refinement bursts with no interleaved reads, the pattern the library itself "
                 "uses when quiet), all interleavings of the five root operations up to a bound on 44 fixed pairs, and the "
                 "library's own drivers under each printer configuration; each compared with a canonical reference run.")
MANIFEST_NOTE = "Trusts the reference run (canonical driver, default printer) on a fresh copy as the expected result."
DESIGN_REF = 'DESIGN.md section 3, C05'
SHRINK = {'docs': ['a', 'b'], 'lists': ['history'], 'enums': {'ds': 'auto', 'le': 'on', 'quiet': False, 'color': False}}

OPS = ['bounds', 'tighten', 'is_complete', 'valid', 'non_zero', 'edits', 'edits2', 'lazy', 'len', 'bool']
ROOT_OPS = ['bounds', 'tighten', 'is_complete', 'edits', 'non_zero', 'lazy']

FIXED_PAIRS = [
    ([1, 2, 3], [1, 3]), ([[1, 2], [3]], [[1], [2, 3]]), ({'a': 1, 'b': 2}, {'a': 1, 'c': 2}), ('abc', 'abd'),
    ([[[1, 2], [3]], [4]], [[[1], [2, 3]], [4, 5]]), ([False, {'ab': None}], [{'b': None, 'c': None}]),
    ({'a': [1, 2, 3]}, {'a': [3, 2, 1], 'b': []}), ([], [[]]), ([[]], []), ([{'a': 'xy'}], [{'a': 'yx'}, {}]),
    ([1, [2, [3, [4]]]], [1, [2, [3, [5, 4]]]]), ({'k1': 'abc'}, {'k2': 'abc'}), ([None, ''], ['', None]),
    ([[1, 2, 3], [4, 5, 6]], [[4, 5, 6], [1, 2, 3]]), ({'a': {'b': {'c': 1}}}, {'a': {'b': {'c': 2, 'd': 3}}}),
    ([['a', 'b'], ['c']], [['a'], ['b', 'c'], []]), ([1, 2], [1, 2]), ({}, {'a': []}), ([[], [], []], [[]]),
    ([[1], [1]], [[1]]), ('', 'a'), ([0.5, 'a'], ['a', 0.5]), ({'a': 1, 'b': 1, 'c': 1}, {'a': 2, 'b': 2}),
    ([{'k1': 'abc'}, {}], [{'k1': 'abc'}, {'b': []}]), ([[['x']]], [[['x', 'y']]]), ([[1, 2], 3], [3, [1, 2]]),
    ([{'a': [1]}, {'a': [2]}], [{'a': [2]}, {'a': [1]}]), (['ab', 'ba'], ['ba', 'ab']), ([[0], [0, 0]], [[0, 0], [0]]),
    ({'a': 'ab'}, {'a': 'ba'}), ([1, 2, 3, 4], [4, 3, 2, 1]), ([[1, 2], [3, 4]], [[1, 2, 5], [3]]),
    ([True, [False]], [[True], False]), ({'a': None}, {'a': ''}), ([[[]]], [[[[]]]]), ([1, 'a', None], []),
    ([[1, [2]], [3]], [[1, [2, 2]], [3, 3]]), ({'a': [], 'b': {}}, {'a': {}, 'b': []}), ([[2, 1]], [[1, 2]]),
    ([['a'], ['b'], ['c']], [['c'], ['b'], ['a']]),
    # a key present on both sides whose value needs refinement, next to a pair the matcher has to find itself
    ({'a': 'kitten', 'b': [1, 2]}, {'a': 'sitting', 'c': [1, 2]}), ({'t': {'x': 'abc'}, 'u': 1}, {'t': {'x': 'abd'}, 'v': 1}),
    ([{'a': 'hello', 'b': 1}], [{'a': 'help', 'c': 1}]),
    # a list of records whose alignment has an exact cost tie next to the last cell while the last pair's edit is still open
    # (input taken from the demonstration of seeded change C05-r3-m1; random generation meets such ties about once in 20000)
    ([{"beta_key": "eef"}, {"alpha_key": "efd", "beta_key": "f", "gamma_key": "gbhbefa"}],
     [{"gamma_key": "h", "alpha_key": "d", "beta_key": "h"}, {"beta_key": "eef"}, {"beta_key": "h", "gamma_key": "fea"}]),
]


@st.composite
def histories(draw, max_ops):
    n = draw(st.integers(0, max_ops))
    ops = []
    for _ in range(n):
        op = draw(st.sampled_from(['tighten', 'tighten', 'tighten', 'bounds', 'is_complete', 'valid', 'non_zero',
                                   'edits', 'edits', 'edits2', 'lazy', 'len', 'bool']))
        h = draw(st.integers(0, 40))
        k = draw(st.integers(1, 6)) if op == 'tighten' else (draw(st.integers(0, 3)) if op == 'lazy' else 1)
        ops.append([op, h, k])
    return ops


@st.composite
def cases(draw, kind, max_ops, max_leaves):
    base = draw(gen.json_cases(max_leaves, 4) if kind == 'json' else
                (gen.skewed_cases(6) if kind == 'skewed' else
                 (gen.padded_cases() if kind == 'padded' else (gen.record_cases() if kind == 'records' else
                                                               (gen.multiset_cases(8) if kind == 'multiset' else gen.nested_list_cases())))))
    case = {'a': base['a'], 'b': base['b'], 'ds': base['ds'], 'le': base['le'], 'quiet': draw(st.booleans()),
            'color': draw(st.booleans()), 'history': draw(histories(max_ops))}
    if base.get('family', 'json') != 'json':
        case['family'] = base['family']
    return case


def jobs(tier):
    js = []
    if tier == 'quick':
        n_json, n_nested, ops, exl = 90, 90, 30, 4
    else:
        n_json, n_nested, ops, exl = 2500, 2500, 80, 5
    for s in range(16):
        js.append({'kind': 'json', 'n': n_json, 'max_ops': ops, 'max_leaves': 10 if tier == 'quick' else 20, 'shard': s})
        js.append({'kind': 'nested', 'n': n_nested, 'max_ops': ops, 'max_leaves': 0, 'shard': s})
        js.append({'kind': 'skewed', 'n': max(8, n_nested // 10), 'max_ops': 10, 'max_leaves': 0, 'shard': s})
        js.append({'kind': 'padded', 'n': max(60, n_nested // 3), 'max_ops': 10, 'max_leaves': 0, 'shard': s})
        js.append({'kind': 'records', 'n': 40 if tier == 'quick' else 1500, 'max_ops': 6, 'max_leaves': 0, 'shard': s})
        js.append({'kind': 'multiset', 'n': 60 if tier == 'quick' else 1500, 'max_ops': 12, 'max_leaves': 0, 'shard': s})
        js.append({'kind': 'exhaustive', 'maxlen': exl, 'shard': s})
        js.append({'kind': 'exhaustive-none', 'maxlen': 3 if tier == 'quick' else 4, 'shard': s})
        js.append({'kind': 'light', 'n': 250 if tier == 'quick' else 12000, 'shard': s})
    return js


def _has_mapping(d):
    return isinstance(d, dict) or (isinstance(d, list) and any(_has_mapping(x) for x in d))


def run_job(job, seed, sink):
    if job['kind'] == 'exhaustive-none':
        # the pairs that contain mappings, under the 'none' strategy (fixed-key mapping edits), with len() and bool() among the
        # operations
        ops = ROOT_OPS + ['len', 'bool']
        i = 0
        for a, b in FIXED_PAIRS:
            if not (_has_mapping(a) and _has_mapping(b)):
                continue
            for n in range(job['maxlen'] + 1):
                for seq in itertools.product(ops, repeat=n):
                    if i % 16 == job['shard']:
                        sink({'a': a, 'b': b, 'ds': 'none', 'le': 'on', 'quiet': (i // 16) % 2 == 1, 'color': False,
                              'history': [[op, 0, 2 if op == 'tighten' else 1] for op in seq]})
                    i += 1
        return
    if job['kind'] == 'light':
        strat = st.one_of(gen.record_cases(), gen.record_variant_cases()).map(
            lambda c: {'a': c['a'], 'b': c['b'], 'ds': c['ds'], 'le': c['le'], 'light': True})
        hyp_drive(strat, job['n'], seed, sink)
        return
    if job['kind'] == 'exhaustive':
        i = 0
        for pi, (a, b) in enumerate(FIXED_PAIRS):
            for n in range(job['maxlen'] + (1 if pi < 20 else 0)):        # the second half of the pairs one step shorter
                for seq in itertools.product(ROOT_OPS, repeat=n):
                    if i % 16 == job['shard']:
                        quiet = (i // 16) % 2 == 1
                        sink({'a': a, 'b': b, 'ds': 'auto', 'le': 'on', 'quiet': quiet, 'color': False,
                              'history': [[op, 0, 2 if op == 'tighten' else 1] for op in seq]})
                    i += 1
    else:
        hyp_drive(cases(job['kind'], job['max_ops'], job['max_leaves']), job['n'], seed, sink)


def reference(case):
    fam = {'family': case.get('family', 'json'), **{k: case[k] for k in ('a', 'b', 'ds', 'le')}}
    a, b = gen.build(fam, 'a'), gen.build(fam, 'b')
    e = a.edits(b)
    common.full_tighten(e)
    probs = Problems()
    rec = walk(e, probs)
    return rec.cost, signature(rec), rec


def flat_edits(a, b):
    out = []
    for e in a.get_all_edits(b):
        common.full_tighten(e)
        out.append((type(e).__name__, plain(e.from_node), e.bounds().upper_bound))
    return Counter(out)


def has_nested_sequence(rec):
    return sum(1 for x in rec.all() if x.kind in ('ordered', 'unordered')) >= 2


def check_light(case):
    """Three drivers only (refine to the end; list the sub-edits first, then refine; TreeNode.diff), for volume."""
    out = Outcome()
    fam = {'family': 'json', **{k: case[k] for k in ('a', 'b', 'ds', 'le')}}
    with guard('canonical driver'):
        e = gen.build(fam, 'a').edits(gen.build(fam, 'b'))
        common.full_tighten(e)
        ref = e.bounds()
    with guard('edits() first'):
        e2 = gen.build(fam, 'a').edits(gen.build(fam, 'b'))
        if isinstance(e2, CompoundEdit):
            list(e2.edits())
        common.full_tighten(e2)
        c2 = e2.bounds()
    with guard('diff()'):
        ec = gen.build(fam, 'a').diff(gen.build(fam, 'b')).edited_cost()
    if not ref.definitive():
        out.fail('not-definitive', f"bounds {ref} after refinement to the end")
    elif (c2.lower_bound, c2.upper_bound) != (ref.lower_bound, ref.upper_bound):
        out.fail('history-changes-cost', f"final cost {c2} when the sub-edits are listed first, {ref} with the canonical driver")
    elif ec != ref.upper_bound:
        out.fail('driver-changes-cost:diff', f"diff().edited_cost() is {ec}, the edit refined by the canonical driver costs {ref.upper_bound}")
    out.nontrivial = ref.upper_bound > 0 and isinstance(case['a'], list) and len(case['a']) >= 2
    out.label('light')
    out.info = {'cost': ref.upper_bound}
    return out


def check(case):
    if case.get('light'):
        return check_light(case)
    out = Outcome()
    fam = {'family': case.get('family', 'json'), **{k: case[k] for k in ('a', 'b', 'ds', 'le')}}
    history = case.get('history', [])
    quiet, color = bool(case.get('quiet')), bool(case.get('color'))
    pr = common._import_time_printer
    old_quiet, old_color = pr.quiet, pr.ansi_color
    try:
        pr.quiet, pr.ansi_color = False, False
        with guard('reference run'):
            ref_cost, ref_sig, ref_rec = reference(case)
            a0, b0 = gen.build(fam, 'a'), gen.build(fam, 'b')
            ref_ec = a0.diff(b0).edited_cost()
            ref_flat = flat_edits(gen.build(fam, 'a'), gen.build(fam, 'b'))
        pr.quiet, pr.ansi_color = quiet, color
        # -- the history -------------------------------------------------------------------------------------------
        with guard('build'):
            a, b = gen.build(fam, 'a'), gen.build(fam, 'b')
            e = a.edits(b)
        pool = [e]
        answers = []
        suspended = []
        burst = early_edits = False
        for step, (op, h, k) in enumerate(history):
            x = pool[h % len(pool)]
            with guard(f'history step {step}: {op} on {type(x).__name__}'):
                if op == 'bounds':
                    x.bounds()
                elif op == 'tighten':
                    if k >= 2:
                        burst = True
                    for _ in range(k):
                        x.tighten_bounds()
                elif op == 'is_complete':
                    x.is_complete()
                elif op == 'valid':
                    _ = x.valid
                elif op == 'non_zero':
                    answers.append((step, x, x.has_non_zero_cost()))
                elif op == 'len':
                    if hasattr(type(x), '__len__'):
                        len(x)              # sized edits: asking for the size is a query like any other
                elif op == 'bool':
                    bool(x)
                elif op == 'lazy':
                    # edits() is a generator: start a listing, take k items and leave it suspended while the history goes on;
                    # it is finished at the end and must then have named every sub-edit exactly once
                    if isinstance(x, CompoundEdit) and len(suspended) < 8:
                        g = x.edits()
                        got = []
                        for _ in range(k):
                            try:
                                got.append(next(g))
                            except StopIteration:
                                break
                        suspended.append((step, x, g, got))
                elif op in ('edits', 'edits2'):
                    if isinstance(x, CompoundEdit):
                        if not x.is_complete():
                            early_edits = True
                        subs = list(x.edits())
                        if op == 'edits2':
                            subs2 = list(x.edits())
                            def brief(es):
                                return sorted((type(q).__name__, repr(plain(q.from_node))) for q in es)
                            if len(subs2) != len(subs) or brief(subs2) != brief(subs):
                                out.fail('edits-not-repeatable', f"{type(x).__name__}.edits() listed {len(subs)} then {len(subs2)} sub-edits "
                                                                 f"(or different ones): {brief(subs)[:6]} then {brief(subs2)[:6]}")
                        for s in subs:
                            if len(pool) < 64 and not any(s is p for p in pool):
                                pool.append(s)
                    elif isinstance(x, StringEdit):
                        list(x.edit_distance.edits())
        with guard('finish with the canonical driver'):
            common.full_tighten(e)
            probs = Problems()
            rec = walk(e, probs)
        with guard('finish the suspended listings'):
            for step, x, g, got in suspended:
                got = got + list(g)
                final = list(x.edits())

                def brief2(es):
                    return sorted((type(q).__name__, repr(plain(q.from_node))) for q in es)
                if brief2(got) != brief2(final):
                    out.fail(f'suspended-listing-differs:{type(x).__name__}', f"history step {step}: a listing of {type(x).__name__}.edits() started there and "
                                                                              f"finished at the end names {brief2(got)[:6]}, a fresh listing names {brief2(final)[:6]}")
                    break
        # whenever it was asked, has_non_zero_cost() must have told whether the edit's final cost is above zero
        with guard('finish the edits that were asked has_non_zero_cost()'):
            for step, x, ans in answers:
                common.full_tighten(x)
                fb = x.bounds()
                if fb.definitive() and ans != (fb.upper_bound > 0):
                    out.fail(f'has_non_zero_cost-wrong:{type(x).__name__}', f"history step {step}: {type(x).__name__}.has_non_zero_cost() answered {ans}, "
                                                                          f"the edit's final cost is {fb.upper_bound}")
                    break
        if rec.cost != ref_cost:
            out.fail('history-changes-cost', f"final cost {rec.cost} after the history, {ref_cost} with the canonical driver (quiet={quiet})")
        elif signature(rec) != ref_sig:
            out.fail('history-changes-script', f"same cost {ref_cost} but a different script after the history (quiet={quiet})")
        # -- the library's own drivers under this printer configuration ---------------------------------------------------
        with guard(f'diff() with quiet={quiet} colour={color}'):
            a1, b1 = gen.build(fam, 'a'), gen.build(fam, 'b')
            d = a1.diff(b1)
            ec = d.edited_cost()
            p2 = Problems()
            drec = walk(d.edit_list[0], p2) if d.edit_list else None
        if ref_cost is not None and ref_ec != ref_cost:
            out.fail('driver-changes-cost:diff', f"diff().edited_cost() is {ref_ec}, the edit refined by the canonical driver costs {ref_cost}")
        if ref_cost is not None and sum(k[2] * n for k, n in ref_flat.items()) != ref_cost:
            out.fail('driver-changes-cost:get_all_edits', f"the edits listed by get_all_edits() cost {sum(k[2] * n for k, n in ref_flat.items())} "
                                                          f"in total, the edit refined by the canonical driver costs {ref_cost}")
        if ec != ref_ec:
            out.fail('printer-setting-changes-cost', f"diff().edited_cost() is {ec} with quiet={quiet} colour={color}, {ref_ec} with the default printer")
        elif drec is not None and signature(drec) != ref_sig:
            out.fail('printer-setting-changes-script', f"diff() script differs with quiet={quiet} colour={color}")
        with guard(f'get_all_edits() with quiet={quiet} colour={color}'):
            flat = flat_edits(gen.build(fam, 'a'), gen.build(fam, 'b'))
        if flat != ref_flat:
            out.fail('printer-setting-changes-edit-list', f"get_all_edits() differs with quiet={quiet} colour={color}")
    finally:
        pr.quiet, pr.ansi_color = old_quiet, old_color
    nested = has_nested_sequence(ref_rec)
    out.nontrivial = nested and (burst or early_edits)
    out.label('quiet' if quiet else 'non-quiet', 'colour' if color else 'no-colour', 'family:' + case.get('family', 'json'))
    if burst:
        out.label('burst')
    if early_edits:
        out.label('edits-before-complete')
    if nested:
        out.label('nested-sequence-edit')
    out.info = {'cost': ref_cost, 'ops': len(history), 'pool': len(pool)}
    return out
