"""C04 - cost bounds only tighten, stay sound, and converge."""
from hypothesis import strategies as st

from .. import common, gen
from ..core import Bad, Outcome, guard, hyp_drive
from ..monitor import MON, analyse, install

import graphtage
from graphtage import Replace
from graphtage.edits import PossibleEdits

ID = 'C04'
TITLE = 'Cost bounds only tighten, stay sound, and converge'
LEVEL = 'exploration'
TECHNIQUE = ('history monitor: every tighten_bounds() of every Bounded class is wrapped from outside and checked per step '
             '(never widens, strict progress, False only when single-valued, final cost inside every exposed interval, '
             'bounded step count) during real refinements of Hypothesis-generated pairs under each library driver')
RULE = ("Cases: the C01 pair generator (JSON-like, nested lists, multisets with duplicates, XML, CSV, plist) x build "
        "options x driver in {refine-loop, diff, get_all_edits, diff+edited_cost, has_non_zero_cost, PossibleEdits over "
        "real alternative edits}. Every class under graphtage.* that defines tighten_bounds (found by reflection) is "
        "wrapped: bounds before, result, bounds after are logged per object. Oracle per step of a still-valid object: "
        "after is inside before; True => after != before; False => after single-valued; after the case every logged "
        "object is refined to the end and its final value must lie in every interval it exposed; progress steps <= "
        "width of its first finite interval; <= 200000 tighten calls per operation (termination, count-based). "
        "Non-trivial: some object other than the root took >= 2 progress steps. Distinct by case hash.")
ASSUMPTIONS = [
    "the monitor reads bounds() around every step, which is itself a history; histories without interleaved reads are C05's",
    "a step that returns False while collapsing the interval to a single value is accepted (docstring: False iff definitive, evaluated after the call)",
    "objects whose `valid` flag became False are exempt: their bounds are documented to be unbounded",
    "termination is decided by call counting (200000 tighten calls per operation, >50x the largest legitimate count seen), never by wall clock",
]
MANIFEST_TEXT = ("Monitors all intermediate refinement steps of all nested bounded objects during real diffs of generated "
                 "pairs under every library driver, plus PossibleEdits/IterativeTighteningSearch over real alternative "
                 "edits; soundness is checked against the object's own final value. Exploration over bounded sizes.")
MANIFEST_NOTE = ("Trusts vf/monitor.py's wrapper (it calls the original method unchanged) and the convention that the final "
                 "cost is what the object reports after refinement until no progress.")
DESIGN_REF = 'DESIGN.md section 3, C04'
SHRINK = {'docs': ['a', 'b'], 'enums': {'ds': 'auto', 'le': 'on', 'driver': 'refine'}}
valid = gen.valid_case

DRIVERS = ['refine', 'diff', 'all_edits', 'edited_cost', 'non_zero', 'possible']


def jobs(tier):
    if tier == 'quick':
        plan = [('json', 10, 4, 260), ('nested', 0, 0, 40), ('multiset', 8, 0, 30), ('xml', 5, 0, 25), ('plist', 8, 0, 15), ('skewed', 6, 0, 120), ('padded', 0, 0, 60), ('pyobj', 8, 0, 30), ('growing', 0, 0, 300), ('huge', 0, 0, 4), ('pickle', 8, 0, 20), ('mixedlists', 0, 0, 200), ('records', 0, 0, 40)]
    else:
        plan = [('json', 25, 7, 3000), ('nested', 0, 0, 600), ('multiset', 10, 0, 600), ('xml', 8, 0, 500),
                ('plist', 12, 0, 300), ('skewed', 8, 0, 1200), ('padded', 0, 0, 600), ('pyobj', 12, 0, 600), ('growing', 0, 0, 1500), ('huge', 0, 0, 60), ('pickle', 12, 0, 400), ('mixedlists', 0, 0, 2500), ('records', 0, 0, 600)]
    js = []
    for s in range(16):
        for fam, ml, mw, n in plan:
            js.append({'family': fam, 'max_leaves': ml, 'max_width': mw, 'n': n, 'shard': s})
    return js


def run_job(job, seed, sink):
    from .c01 import strategy_for
    base = strategy_for(job)
    drivers = [d for d in DRIVERS if d != 'possible'] if job['family'] == 'huge' else DRIVERS    # ('possible' re-builds with list edits off)
    strat = st.tuples(base, st.sampled_from(drivers)).map(lambda t: {**t[0], 'driver': t[1]})
    hyp_drive(strat, job['n'], seed, sink)


def drive(case, a, b):
    drv = case.get('driver', 'refine')
    if drv == 'refine':
        e = a.edits(b)
        common.full_tighten(e)
    elif drv == 'diff':
        a.diff(b)
    elif drv == 'all_edits':
        for e in a.get_all_edits(b):
            common.full_tighten(e)
    elif drv == 'edited_cost':
        a.diff(b).edited_cost()
    elif drv == 'non_zero':
        a.edits(b).has_non_zero_cost()
    elif drv == 'possible':
        alts = [a.edits(b), Replace(a, b)]
        if case.get('family', 'json') == 'json':
            # a second, differently-configured real alternative over the same documents
            o2 = common.build_options('match' if case.get('ds') != 'match' else 'auto', 'off' if case.get('le') != 'off' else 'on')
            alts.append(gen.build(case, 'a', o2).edits(gen.build(case, 'b', o2)))
        pe = PossibleEdits(a, b, iter(alts))
        common.full_tighten(pe)
    else:
        raise Bad('bad-driver', drv)


def final_of(obj):
    try:
        n = 0
        while obj.tighten_bounds():
            n += 1
            if n > common.TIGHTEN_LIMIT:
                return None
        b = obj.bounds()
        return (b.lower_bound, b.upper_bound)
    except Exception:
        return None


def check(case):
    install()
    out = Outcome()
    with guard('build'):
        a, b = gen.build(case, 'a'), gen.build(case, 'b')
    MON.reset()
    MON.active = True
    try:
        with guard('drive:' + case.get('driver', 'refine')):
            drive(case, a, b)
    finally:
        MON.active = False
    stats = analyse(final_of, out.fail)
    nested_progress = 0
    for oid, (obj, steps) in MON.objs.items():
        p = sum(1 for s in steps if s[1])
        nested_progress = max(nested_progress, p)
    nonroot = len(MON.objs) > 1
    out.nontrivial = nonroot and any(sum(1 for s in steps if s[1]) >= 2 for _, (o, steps) in list(MON.objs.items())[1:]) \
        if MON.objs else False
    out.label('family:' + case.get('family', 'json'), 'driver:' + case.get('driver', 'refine'))
    for _, (obj, steps) in MON.objs.items():
        out.label('class:' + type(obj).__name__)
    out.info = {'objects': stats['objects'], 'steps': stats['steps'], 'tighten_calls': MON.calls}
    MON.reset()
    return out


def coverage_extra(tier):
    return {'monitored_classes': install()}
