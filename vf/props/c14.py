"""C14 - the command line agrees with the library and honours its option spellings."""
import json
import re

from hypothesis import strategies as st

from .. import cli, common, gen
from ..core import Outcome, guard, hyp_drive

import graphtage
from graphtage.printer import HTMLPrinter, Printer

ID = 'C14'
TITLE = 'The command line agrees with the library and honours its option spellings'
LEVEL = 'exploration'
TECHNIQUE = ('differential (command line vs library) and metamorphic (equivalent spellings, explicit type vs file name) '
             'relations over Hypothesis-generated documents (JSON family, XML, CSV) and option vectors (modes, --format, --html), all '
             'run through main() in-process, with and without real output streams')
RULE = ("Cases: a document pair, the types of the two files (json, json5, yaml; independently chosen, so the two files "
        "often have different types), option vector (dict strategy, list-edit mode, -j/-jl/-jd) and a misleading "
        "extension per file; modes full / -e / -d, optionally --format F; a fifth of the cases are CSV tables (cells with embedded LF, CRLF and lone CR, files with DOS or UNIX line ends); a quarter of the cases are XML documents (both files XML, attribute and element mutations) and a third to a half add --html. Relations, each comparing stdout bytes and return value: (a) command line == library "
        "(Filetype.build_tree + diff + formatter.print on Printer / HTMLPrinter(ansi_color=False, options=...), status 1 iff some "
        "edit has non-zero cost); (b) -k == --dict-strategy none; -j == -jl -jd; --from-T == --from-mime mime(T) and "
        "--to-T == --to-mime mime(T) for every registered type T able to read the file; (c) the same bytes stored under "
        "a misleading extension with an explicit --from-T / --to-T / --from-mime / --to-mime give the output obtained "
        "with the honest extension; (e) the same invocation without --no-status on real output streams (files with descriptors: the Printer's buffered tqdm.write path) prints the same stdout and returns the same status; (c) holds for each file position independently (also right after an invocation that let the name decide, and with one file given in both positions but read as two types). Non-trivial: the two files have different "
        "types and the explicit type differs from the one the name suggests. Distinct by case hash.")
ASSUMPTIONS = [
    "file types are limited to the JSON family (json, json5, yaml) for mixed-type pairs, plus XML against XML: XML and plist mixed with other types are covered by C09/C13 findings",
    "colour is off (--no-color) so that byte comparison is meaningful",
]
MANIFEST_TEXT = ("Command-line behaviour is compared with the library on the same files and options, equivalent option "
                 "spellings are compared with each other, and explicit type selection is compared with honest file "
                 "names, for both file positions and mixed file types.")
MANIFEST_NOTE = "Trusts vf/cli.py's in-process driver; the library side replicates __main__'s documented steps."
DESIGN_REF = 'DESIGN.md section 3, C14'
SHRINK = {'docs': ['a', 'b'], 'enums': {'ds': 'auto', 'le': 'on', 'join': None, 'mode': 'full', 'format': None, 'html': False}}

TYPES = ['json', 'json5', 'yaml']
MISLEADING = ['csv', 'xml', 'json', 'yml', 'plist', 'json5', 'txt']
FT = graphtage.FILETYPES_BY_TYPENAME

ykeys = st.sampled_from(['a', 'b', 'c', 'ab', 'k1', 'k2'])
yscal = st.one_of(st.booleans(), st.integers(-3, 12), st.sampled_from(['a', 'b', 'ab', 'ba', 'xyz', 'abc']),
                  st.sampled_from([0.5, 1.5, -2.5, 1.0, 2.0, 100.0, -0.0]), st.none())


def respell(doc, which):
    """the same document with its `which`-th number written as the equal number of the other type (1 <-> 1.0)"""
    n = [0]

    def rec(d):
        if isinstance(d, bool):
            return d
        if isinstance(d, int) or (isinstance(d, float) and d == int(d)):
            n[0] += 1
            if n[0] - 1 == which:
                return float(d) if isinstance(d, int) else int(d)
            return d
        if isinstance(d, list):
            return [rec(x) for x in d]
        if isinstance(d, dict):
            return {k: rec(v) for k, v in d.items()}
        return d
    return rec(doc)


@st.composite
def cases(draw):
    a, b = draw(gen.doc_pairs(8, 4, yscal))
    k = draw(st.integers(0, 9))
    if k == 0:
        a = draw(yscal)                      # a document that is a single scalar
        b = draw(st.one_of(yscal, st.just(a)))
    if k <= 2:
        b = respell(a, draw(st.integers(0, 2)))     # equal as numbers, spelled differently
    ds, le = draw(gen.options)
    return {'a': a, 'b': b, 'ft': draw(st.sampled_from(TYPES)), 'tt': draw(st.sampled_from(TYPES)), 'ds': ds, 'le': le,
            'join': draw(st.sampled_from([None, '-j', '-jl', '-jd'])), 'mode': draw(st.sampled_from(['full', 'full', '-e', '-d'])),
            'fmis': draw(st.sampled_from(MISLEADING)), 'tmis': draw(st.sampled_from(MISLEADING)),
            'html': draw(st.sampled_from([False, False, True])),
            'format': draw(st.sampled_from([None, None, 'json', 'yaml', 'xml', 'plist', 'json5', 'csv', 'html']))}


@st.composite
def xml_cases(draw):
    c = draw(gen.xml_cases(5))
    ds, le = draw(gen.options)
    return {'a': c['a'], 'b': c['b'], 'ft': 'xml', 'tt': 'xml', 'ds': ds, 'le': le,
            'join': draw(st.sampled_from([None, '-j', '-jl', '-jd'])), 'mode': draw(st.sampled_from(['full', 'full', '-e'])),
            'fmis': draw(st.sampled_from(MISLEADING)), 'tmis': draw(st.sampled_from(MISLEADING)), 'html': draw(st.booleans())}


@st.composite
def csv_cases(draw):
    cells = st.sampled_from(['a', 'b', '1', '', 'x y', 'c,d', 'two\nlines', 'dos\r\nline', 'lone\rcr', 'q"r', ' pad '])
    rows = st.lists(st.lists(cells, min_size=1, max_size=3), min_size=1, max_size=3)
    a = draw(rows)
    b = draw(st.one_of(st.just(a), rows, st.just(a + [draw(st.lists(cells, min_size=1, max_size=2))])))
    ds, le = draw(gen.options)
    return {'a': a, 'b': b, 'ft': 'csv', 'tt': 'csv', 'ds': ds, 'le': le, 'join': draw(st.sampled_from([None, '-j'])),
            'mode': draw(st.sampled_from(['full', '-e', '-d'])), 'fmis': draw(st.sampled_from(MISLEADING)), 'tmis': draw(st.sampled_from(MISLEADING)),
            'html': False, 'eol': draw(st.sampled_from(['\r\n', '\n'])), 'eol2': draw(st.sampled_from(['\r\n', '\n']))}


def jobs(tier):
    n = 20 if tier == 'quick' else 320
    return [{'n': n, 'shard': s} for s in range(16)] + [{'n': n // 3, 'shard': s, 'xml': True} for s in range(16)] + \
        [{'n': n // 3, 'shard': s, 'csv': True} for s in range(16)]


def run_job(job, seed, sink):
    if job.get('csv'):
        hyp_drive(csv_cases(), job['n'], seed, sink)
    elif job.get('xml'):
        hyp_drive(xml_cases(), job['n'], seed, sink)
    else:
        hyp_drive(cases(), job['n'], seed, sink)


def valid(case):
    if case.get('format') not in (None, 'json', 'yaml', 'xml', 'plist', 'json5', 'csv', 'html'):
        return False
    if case.get('ft') == 'csv' or case.get('tt') == 'csv':
        return (case.get('ft') == case.get('tt') and case.get('ds') in common.DS and case.get('le') in common.LE
                and gen.valid_case({'family': 'csv', 'a': case['a'], 'b': case['b']}))
    if case.get('ft') == 'xml' or case.get('tt') == 'xml':
        return (case.get('ft') == case.get('tt') and case.get('ds') in common.DS and case.get('le') in common.LE
                and gen.valid_case({'family': 'xml', 'a': case['a'], 'b': case['b']}))
    return case.get('ft') in TYPES and case.get('tt') in TYPES and case.get('ds') in common.DS and case.get('le') in common.LE


def dump(doc, t, eol='\r\n'):
    if t == 'csv':
        import csv
        import io
        s_ = io.StringIO(newline='')
        w = csv.writer(s_, lineterminator=eol)
        for r in doc:
            w.writerow(r)
        return s_.getvalue()
    if t == 'xml':
        import xml.etree.ElementTree as ET
        return ET.tostring(gen.to_et(doc))
    if t == 'yaml':
        import yaml
        return yaml.safe_dump(doc, default_flow_style=False)
    return json.dumps(doc)


def base_args(case):
    args = ['--no-status', '--no-color']
    if case['ds'] != 'auto':
        args += ['--dict-strategy', case['ds']]
    if case['le'] == 'off':
        args.append('-l')
    elif case['le'] == 'same':
        args.append('-ll')
    if case.get('join'):
        args.append(case['join'])
    if case.get('mode', 'full') != 'full':
        args.append(case['mode'])
    if case.get('html'):
        args.append('--html')
    if case.get('format'):
        args += ['--format', case['format']]
    return args


def library(case, pa, pb):
    opts = common.build_options(case['ds'], case['le'])
    jl = case.get('join') in ('-j', '-jl')
    jd = case.get('join') in ('-j', '-jd')
    out = common.Cap()
    if case.get('html'):
        import os
        printer = HTMLPrinter(out, title=f"Graphtage Diff of {os.path.basename(pa)} and {os.path.basename(pb)}", ansi_color=False,
                              quiet=True, options={'join_lists': jl, 'join_dict_items': jd})
    else:
        printer = Printer(out, ansi_color=False, quiet=True, options={'join_lists': jl, 'join_dict_items': jd})
    ff, tf = FT[case['ft']], FT[case['tt']]
    out_ft = FT[case['format']] if case.get('format') else ff
    with printer:
        ta, tb = ff.build_tree(pa, opts), tf.build_tree(pb, opts)
        had = False
        if case.get('mode') == '-d':
            from colorama.ansi import Fore
            formatter = out_ft.get_default_formatter()
            for ancestors, edit in ta.get_all_edit_contexts(tb):
                for i, node in enumerate(ancestors):
                    if node.parent is not None:
                        node.parent.print_parent_context(printer, for_child=node)
                    if i == len(ancestors) - 1:
                        with printer.color(Fore.BLUE):
                            printer.write(" -> ")
                        formatter.print(printer, edit)
                printer.newline()
                had = had or edit.has_non_zero_cost()
        elif case.get('mode') == '-e':
            for e in ta.get_all_edits(tb):
                printer.write(str(e))
                printer.newline()
                had = had or e.has_non_zero_cost()
        else:
            d = ta.diff(tb)
            out_ft.get_default_formatter().print(printer, d)
            stack = [d]
            while stack:
                n = stack.pop()
                if any(e.has_non_zero_cost() for e in n.edit_list):
                    had = True
                stack.extend(n.children())
    printer.write('\n')
    printer.close()
    return out.getvalue(), (1 if had else 0)


_TITLE = re.compile(r'<title>.*?</title>', re.S)


def norm(text):
    """the --html page title names the two files; relations that rename a file compare everything but the title"""
    return _TITLE.sub('<title/>', text)


def check(case):
    out = Outcome()
    ft, tt = case['ft'], case['tt']
    try:
        da, db = dump(case['a'], ft, case.get('eol', '\r\n')), dump(case['b'], tt, case.get('eol2', '\r\n'))
    except Exception:
        out.skipped = 'not-serialisable'
        return out
    files = []

    def mk(data, ext, name):
        p = cli.write_file(data, ext, name=name)
        files.append(p)
        return p

    try:
        pa, pb = mk(da, cli.EXT[ft], 'A'), mk(db, cli.EXT[tt], 'B')
        ba = base_args(case)
        ref = cli.run_main([pa, pb] + ba)
        if ref.exc is not None or ref.rc not in (0, 1):
            out.skipped = 'baseline-invocation-failed'      # C13's business
            return out

        def same(r):
            return r.exc is None and r.rc == ref.rc and norm(r.out) == norm(ref.out)

        def describe(r):
            return f"baseline rc={ref.rc} out={ref.out[:120]!r}; got rc={r.rc} exc={r.exc_key} out={r.out[:120]!r}"

        # (a) command line vs library
        with guard('library rendering'):
            lib_out, lib_rc = library(case, pa, pb)
        if lib_out != ref.out or lib_rc != ref.rc:
            out.fail('cli-differs-from-library', f"args {ba}: library rc={lib_rc} out={lib_out[:150]!r}; command rc={ref.rc} out={ref.out[:150]!r}")
        # (b) aliases
        if case['ds'] == 'none':
            alt = [x for x in ba if x not in ('--dict-strategy', 'none')] + ['-k']
            r = cli.run_main([pa, pb] + alt)
            if not same(r):
                out.fail('alias:-k', f"-k vs --dict-strategy none: {describe(r)}")
        if case.get('join') == '-j':
            alt = [x for x in ba if x != '-j'] + ['-jl', '-jd']
            r = cli.run_main([pa, pb] + alt)
            if not same(r):
                out.fail('alias:-j', f"-j vs -jl -jd: {describe(r)}")
        results = {}
        for pos, t in (('from', ft), ('to', tt)):
            mime = FT[t].default_mimetype
            r1 = cli.run_main([pa, pb] + ba + [f'--{pos}-{t}'])
            r2 = cli.run_main([pa, pb] + ba + [f'--{pos}-mime', mime])
            results[pos] = (r1, r2)
            if not same(r1):
                out.fail(f'explicit-{pos}-type-changes-result', f"--{pos}-{t} on an honestly named {t} file: {describe(r1)}")
            if (r1.rc, r1.out, r1.exc_key) != (r2.rc, r2.out, r2.exc_key):
                out.fail(f'alias:--{pos}-TYPE-vs-mime', f"--{pos}-{t} rc={r1.rc} exc={r1.exc_key} out={r1.out[:100]!r}; --{pos}-mime {mime} rc={r2.rc} "
                                                        f"exc={r2.exc_key} out={r2.out[:100]!r}")
        # (c) explicit type wins over the file name, for each position independently
        nontrivial = False
        for pos, t, data, mis in (('from', ft, da, case['fmis']), ('to', tt, db, case['tmis'])):
            if mis == cli.EXT[t] or (mis, t) in (('yml', 'yaml'),):
                continue
            pm = mk(data, mis, 'M' + pos)
            pair = [pm, pb] if pos == 'from' else [pa, pm]
            # first let the name decide (whatever that gives), then ask explicitly: an earlier lookup of the same path in
            # the same process must not stick
            cli.run_main(pair + ba)
            for spelling in ([f'--{pos}-{t}'], [f'--{pos}-mime', FT[t].default_mimetype]):
                r = cli.run_main(pair + ba + spelling)
                if not same(r):
                    out.fail(f'explicit-{pos}-type-not-used', f"{t} bytes stored as *.{mis} with {' '.join(spelling)} (other file: "
                                                             f"{tt if pos == 'from' else ft}): {describe(r)}; stderr={r.err[-150:]!r}")
                    break
            if ft != tt:
                nontrivial = True
        # (c') both files misleadingly named, both types given explicitly (every combination of the two spellings)
        if case['fmis'] != cli.EXT[ft] and case['tmis'] != cli.EXT[tt]:
            pma, pmb = mk(da, case['fmis'], 'Xf'), mk(db, case['tmis'], 'Xt')
            for fs in ([f'--from-{ft}'], ['--from-mime', FT[ft].default_mimetype]):
                for ts in ([f'--to-{tt}'], ['--to-mime', FT[tt].default_mimetype]):
                    r = cli.run_main([pma, pmb] + ba + fs + ts)
                    if not same(r):
                        out.fail('explicit-types-not-used-together', f"{ft} bytes as *.{case['fmis']} and {tt} bytes as *.{case['tmis']} with "
                                                                     f"{' '.join(fs + ts)}: {describe(r)}; stderr={r.err[-120:]!r}")
                        break
                else:
                    continue
                break
        # (d) the same file in both positions, the second one read as another type: command line vs library
        other = next(t for t in TYPES if t != ft)
        if ft not in ('xml', 'csv'):
            case2 = dict(case, tt=other)
            r = cli.run_main([pa, pa] + ba + [f'--to-{other}'])
            try:
                lib = library(case2, pa, pa)
            except Exception:
                lib = None          # the other parser rejects these bytes: nothing to compare
            if lib is not None and r.exc is None and r.rc in (0, 1) and (norm(r.out), r.rc) != (norm(lib[0]), lib[1]):
                out.fail('explicit-to-type-not-used', f"the same {ft} file as FROM and TO with --to-{other}: command rc={r.rc} out={r.out[:120]!r}; "
                                                      f"library (second side read as {other}) rc={lib[1]} out={lib[0][:120]!r}")
        # (e) status output on, written to real streams (what a terminal or a pipe gets): same stdout, same status
        r = cli.run_main([pa, pb] + [x for x in ba if x != '--no-status'], real_streams=True)
        if r.exc is not None or r.rc != ref.rc or r.out != ref.out:
            out.fail('status-output-changes-result', f"without --no-status, on real output streams: {describe(r)}")
        out.nontrivial = nontrivial
    finally:
        cli.cleanup_files(*files)
    out.label('from:' + ft, 'to:' + tt, 'mixed' if ft != tt else 'same-type', 'mode:' + case.get('mode', 'full'))
    out.info = {'rc': ref.rc}
    return out
