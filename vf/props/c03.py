"""C03 - the reported cost equals the sum of its parts, in every view."""
from collections import Counter

from .. import common, gen
from ..core import Outcome, guard, hyp_drive
from ..script import Problems, walk

ID = 'C03'
TITLE = 'The reported cost equals the sum of its parts, in every view'
LEVEL = 'exploration'
TECHNIQUE = ('Hypothesis-generated pairs biased to different-sized containers and duplicates; independent walker sums '
             'sub-edit costs at every level and three cost views are compared on freshly built trees')
RULE = ("Cases: C01's pair generator (JSON-like incl. different-sized mappings/lists, multisets with duplicates, XML, "
        "CSV, plist) x dict strategy x list-edit mode. Oracle: in the fully refined script every compound edit's "
        "single-valued cost equals the sum of the single-valued costs of the sub-edits it lists, recursively (per "
        "character for strings); and three totals agree, each computed on freshly built trees: the refined top-level "
        "edit, TreeNode.diff(...).edited_cost(), and the sum over TreeNode.get_all_edits() (each listed edit refined). "
        "Non-trivial: a Remove or Insert inside a mapping/multiset edit, or compound edits nested >= 2 deep. "
        "Distinct by case hash.")
ASSUMPTIONS = [
    "get_all_edits omits zero-cost edits, which contribute 0 to its sum",
    "each edit yielded by get_all_edits is refined to a single value before it is summed",
    "documents are bounded: <= 10 leaves (quick) / 25 (thorough)",
]
MANIFEST_TEXT = ("Every nested compound edit of every generated pair is checked against the sum of the sub-edits it lists, "
                 "and the three public cost views are compared on independent trees. Exploration over bounded sizes and "
                 "all nine option combinations plus multiset/XML/CSV/plist families.")
MANIFEST_NOTE = "Trusts vf/script.py's walker; costs are the objects' own bounds() after refinement until no progress."
DESIGN_REF = 'DESIGN.md section 3, C03'
SHRINK = {'docs': ['a', 'b'], 'enums': {'ds': 'auto', 'le': 'on'}}
valid = gen.valid_case


def jobs(tier):
    if tier == 'quick':
        plan = [('json', 10, 4, 220), ('nested', 0, 0, 30), ('multiset', 8, 0, 60), ('xml', 5, 0, 40), ('csv', 0, 0, 20),
                ('plist', 8, 0, 20), ('skewed', 6, 0, 60), ('padded', 0, 0, 30), ('pyobj', 8, 0, 30), ('growing', 0, 0, 80), ('dupsib', 0, 0, 40), ('huge', 0, 0, 3), ('pickle', 8, 0, 20), ('mixedlists', 0, 0, 60), ('records', 0, 0, 30), ('plistjson', 8, 0, 30)]
    else:
        plan = [('json', 25, 7, 5000), ('nested', 0, 0, 600), ('multiset', 10, 0, 1500), ('xml', 8, 0, 1000),
                ('csv', 0, 0, 400), ('plist', 12, 0, 400), ('skewed', 8, 0, 1200), ('padded', 0, 0, 600), ('pyobj', 12, 0, 600), ('growing', 0, 0, 1500), ('dupsib', 0, 0, 600), ('huge', 0, 0, 40), ('pickle', 12, 0, 400), ('mixedlists', 0, 0, 1000), ('records', 0, 0, 600), ('plistjson', 12, 0, 400)]
    js = []
    for s in range(16):
        for fam, ml, mw, n in plan:
            js.append({'family': fam, 'max_leaves': ml, 'max_width': mw, 'n': n, 'shard': s})
    return js


def run_job(job, seed, sink):
    from .c01 import strategy_for
    hyp_drive(strategy_for(job), job['n'], seed, sink)


def check(case):
    out = Outcome()
    with guard('build'):
        a, b = gen.build(case, 'a'), gen.build(case, 'b')
    with guard('edits+refine'):
        e = a.edits(b)
        common.full_tighten(e)
    probs = Problems()
    with guard('walk script'):
        rec = walk(e, probs)
    for key, detail in probs.of('cost'):
        out.fail(key, detail)
    kinds = Counter(x.kind for x in rec.all())
    depth = 0

    def d(r, k):
        nonlocal depth
        if r.subs:
            k += 1
            depth = max(depth, k)
        for s in r.subs:
            d(s, k)
    d(rec, 0)
    unordered_ri = any(x.kind == 'unordered' and any(s.kind in ('remove', 'insert') for s in x.subs) for x in rec.all())
    out.nontrivial = unordered_ri or depth >= 2
    out.label('family:' + case.get('family', 'json'), 'ds:' + case.get('ds', 'auto'), 'le:' + case.get('le', 'on'))
    if unordered_ri:
        out.label('unmatched-in-mapping-or-multiset')
    out.label(f'depth:{min(depth, 4)}')
    top = rec.cost
    # view 2: annotated diff tree
    with guard('build'):
        a2, b2 = gen.build(case, 'a'), gen.build(case, 'b')
    with guard('diff.edited_cost'):
        ec = a2.diff(b2).edited_cost()
    # view 3: flat list of all edits
    with guard('build'):
        a3, b3 = gen.build(case, 'a'), gen.build(case, 'b')
    with guard('get_all_edits'):
        total = 0
        n_edits = 0
        for ed in a3.get_all_edits(b3):
            common.full_tighten(ed)
            bb = ed.bounds()
            if not bb.definitive():
                out.fail('flat-edit-not-definitive', f"{type(ed).__name__} {bb}")
                break
            total += bb.upper_bound
            n_edits += 1
    # view 4: the annotated result of a diff is itself a tree equal to the first document; diffed again (against the second
    # document, and against a fresh copy of the first) its total must be that comparison's cost, not a sum over both diffs,
    # and the first result must still report its own total
    with guard('diff of a diff result'):
        d1 = gen.build(case, 'a').diff(gen.build(case, 'b'))
        ec1 = d1.edited_cost()
        ec_b = d1.diff(gen.build(case, 'b')).edited_cost()
        ec1_after = d1.edited_cost()
        ec_a = gen.build(case, 'a').diff(gen.build(case, 'b')).diff(gen.build(case, 'a')).edited_cost()
    if ec1 == ec:
        if ec_b != ec:
            out.fail('views-disagree:rediff', f"a.diff(b).edited_cost() is {ec}, a.diff(b).diff(b).edited_cost() is {ec_b}")
        elif ec1_after != ec1:
            out.fail('views-disagree:rediff', f"a.diff(b).edited_cost() was {ec1} and reads {ec1_after} after that result was diffed again")
        elif ec_a != 0:
            out.fail('views-disagree:rediff', f"a.diff(b).diff(a).edited_cost() is {ec_a}, the cost of comparing a with itself is 0")
    out.info = {'top': top, 'edited_cost': ec, 'flat_sum': total, 'flat_edits': n_edits, 'kinds': dict(kinds)}
    if top is not None:
        if ec != top:
            out.fail('views-disagree:edited_cost', f"refined top-level edit costs {top}, diff().edited_cost() is {ec}")
        if total != top:
            out.fail('views-disagree:get_all_edits', f"refined top-level edit costs {top}, get_all_edits sums to {total}")
    elif ec != total:
        out.fail('views-disagree:edited_cost-vs-flat', f"diff().edited_cost() is {ec}, get_all_edits sums to {total}")
    return out
