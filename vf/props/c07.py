"""C07 - diffing is a pure, deterministic function of its inputs."""
import gc
import hashlib
import json
import os
import subprocess
import sys

from hypothesis import strategies as st

from .. import cli, common, gen
from ..core import REPO, VERIF, Bad, Outcome, case_hash, guard, hyp_drive, scratch_dir
from ..script import Problems, walk

import graphtage
from graphtage.printer import Printer

ID = 'C07'
TITLE = 'Diffing is a pure, deterministic function of its inputs'
LEVEL = 'exploration'
TECHNIQUE = ('metamorphic / differential over schedules: Hypothesis-generated file pairs and option vectors are replayed '
             'through main() in child interpreters started with different PYTHONHASHSEED values and repeatedly in one '
             'process under allocation perturbation; input trees are structurally snapshotted around every operation')
RULE = ("Cases: (document pair as JSON or XML files) x option vector (dict strategy, list-edit mode, full / -e / -d, "
        "--format, -j, --no-color / --color / --html). Three sub-checks per case kind: 'purity' - a structural snapshot "
        "of both input trees (node identity and order of children, leaf objects and types, parent links, option flags "
        "incl. quoted; memo caches excluded) is taken before and after diff(), get_all_edits() and rendering in every "
        "registered output format and must be identical; 'repeat' - the same command line is run 3x in one process "
        "with different amounts of intervening allocation and a gc.collect(), stdout bytes and exit status must be "
        "identical; 'seeds' - the parent generates the cases once (a quarter of them pairs with one re-typed scalar), K child interpreters, each replaying the batch in a different order (forward, reverse, rotated, interleaved) so that dependence on what the process did before shows as well, (PYTHONHASHSEED 0,1,2,.. plus "
        "values derived from VERIF_SEED; K=4 quick / 12 thorough) replay them through main() and must produce identical (status, stdout "
        "digest) lists; a sample additionally runs as true `python -m graphtage` subprocesses. Non-trivial: the script "
        "has >= 2 removes or inserts inside one mapping (where iteration order can show). Distinct by case hash.")
ASSUMPTIONS = [
    "hash seeds and allocation orders are sampled (4-12 seeds, 3 allocation perturbations), not enumerated",
    "Hypothesis' own generation depends on PYTHONHASHSEED, so cases are generated once in the parent and only replayed in children",
    "exceptions raised by a formatter are C13's business; here they only have to be the same across runs",
]
MANIFEST_TEXT = ("Determinism is checked across real interpreter processes with different string-hash seeds and across "
                 "repeated in-process invocations with perturbed allocation; purity by structural snapshots of the input "
                 "trees around every public operation and every output format. Seeds are sampled, so a dependence that "
                 "shows only for a rare seed can be missed.")
MANIFEST_NOTE = "Trusts the snapshot function in this module to capture every user-visible part of a tree."
DESIGN_REF = 'DESIGN.md section 3, C07'
SHRINK = {'docs': ['a', 'b'], 'lists': ['args']}
SHRINK_BUDGET = {'quick': 25, 'thorough': 80}      # every attempt on a 'seeds' case starts 4 interpreters

ORDERS = ['forward', 'reverse', 'rotate', 'interleave']      # replay order of the batch in successive children
_PRE = {}           # case hash -> list of child results (filled by run_job for the 'seeds' kind)
SEEDS = {'quick': ['0', '1', '2', 'random'], 'thorough': ['0', '1', '2', '3', '4', '5', '7', '11', '42', '12345', 'random', 'random']}


def valid(case):
    if case.get('kind') not in ('purity', 'repeat', 'seeds') or case.get('input') not in ('json', 'xml', 'yaml'):
        return False
    if case['input'] == 'xml':
        return gen.valid_case({'family': 'xml', 'a': case['a'], 'b': case['b']})
    return True


FORMATS = ['json', 'yaml', 'xml', 'csv', 'plist', 'json5', 'html']


@st.composite
def arg_vectors(draw):
    args = []
    ds = draw(st.sampled_from(['auto', 'auto', 'match', 'none', 'none', '-k', '-k']))
    if ds == '-k':
        args.append('-k')
    elif ds != 'auto' or draw(st.booleans()):
        args += ['--dict-strategy', ds]
    le = draw(st.sampled_from(['on', 'on', 'off', 'same']))
    if le == 'off':
        args.append('-l')
    elif le == 'same':
        args.append('-ll')
    mode = draw(st.sampled_from(['full', 'full', '-e', '-d']))
    if mode != 'full':
        args.append(mode)
    if draw(st.integers(0, 3)) == 0:
        args += ['--format', draw(st.sampled_from(['json', 'yaml', 'json5']))]
    if draw(st.booleans()):
        args.append('-j')
    style = draw(st.sampled_from(['--no-color', '--no-color', '--color', '--html', None]))
    if style:
        args.append(style)
    return args


MIXED_KEYS = [1, '1', True, 'true', 'True', 2.5, '2.5', 0, '0', 'a', 10, '10', False, 'false']
TEXTS = ['one line', 'one lime', 'first\nsecond', 'first\nsecund\n', 'abstract text', 'abstract test', 'a\nb\nc', 'a\nb\nd', '', 'x']


@st.composite
def yaml_key_cases(draw, kind):
    """YAML documents whose mappings mix key types with equal spellings (1 and "1", true and "true"): canonical order between
    such keys must not come from anything that varies between processes"""
    vals = st.one_of(st.sampled_from([1, 'x', 'x', 5, None]), st.sampled_from([1, 'x', 5, None]),
                     # a YAML !!set of strings: if a loader accepts it at all, its order must not come from the hash seed
                     st.lists(st.sampled_from(['alpha', 'beta', 'gamma', 'delta', 'x', 'y']), min_size=2, max_size=4, unique=True).map(
                         lambda xs: {'__set__': xs}))

    def mapping():
        ks = draw(st.lists(st.sampled_from(MIXED_KEYS), min_size=2, max_size=5, unique_by=lambda k: (type(k).__name__, k)))
        return {'__pairs__': [[k, draw(vals)] for k in ks]}
    a, b = mapping(), mapping()
    if draw(st.booleans()):
        a, b = {'__pairs__': [['m', a], ['n', 1]]}, {'__pairs__': [['m', b]]}
    return {'kind': kind, 'input': 'yaml', 'a': a, 'b': b, 'args': draw(arg_vectors()), 'via': 'yaml'}


@st.composite
def text_cases(draw, kind):
    """documents of one-line and multi-line strings, some edited: formatters that keep per-string state (block style, quoting)
    must start every string, every document and every invocation afresh"""
    keys = draw(st.lists(st.sampled_from(['abstract', 'title', 'body', 'note', 'z']), min_size=1, max_size=4, unique=True))
    a = {k: draw(st.sampled_from(TEXTS)) for k in keys}
    b = {k: (draw(st.sampled_from(TEXTS)) if draw(st.booleans()) else v) for k, v in a.items()}
    args = draw(arg_vectors())
    if '--format' not in args and draw(st.integers(0, 2)) > 0:
        args = args + ['--format', draw(st.sampled_from(['yaml', 'yaml', 'plist', 'csv']))]
    return {'kind': kind, 'input': 'json', 'a': a, 'b': b, 'args': args, 'via': 'json'}


@st.composite
def cases(draw, kind):
    k0 = draw(st.integers(0, 9))
    if k0 == 0:
        return draw(yaml_key_cases(kind))
    if k0 <= 2:
        return draw(text_cases(kind))
    if draw(st.integers(0, 5 if kind == 'seeds' else 3)) == 0:
        x = draw(gen.xml_cases(5))
        a, b, inp = x['a'], x['b'], 'xml'
    elif draw(st.integers(0, 3)) > 0 or kind != 'purity' and draw(st.booleans()):
        # mapping-heavy documents over a larger key pool: several unshared keys per mapping are frequent
        wide_keys = st.sampled_from(['a', 'b', 'c', 'd', 'e', 'f', 'g', 'h', 'k1', 'k2', 'zz', 'Q'])
        small = st.one_of(st.integers(0, 3), st.sampled_from(['x', 'y']), st.none())
        D = st.recursive(small, lambda ch: st.one_of(st.dictionaries(wide_keys, ch, min_size=2, max_size=4),
                                                     st.lists(ch, max_size=3)), max_leaves=8)
        a = draw(D)
        b = draw(st.one_of(D, gen.mutate(a, D, small), gen.mutate(a, D, small)))
        inp = 'json'
    elif draw(st.integers(0, 1)) == 0:
        # one scalar re-typed or re-spelled (1 -> "1", true -> 1, ...): results must not depend on what was compared before
        from .c02 import get, paths, put
        small_ints = st.one_of(st.integers(0, 5), st.booleans(), st.none(), st.sampled_from(['1', '2', 'a']))
        a = draw(st.recursive(small_ints, lambda ch: st.one_of(st.lists(ch, max_size=4), st.dictionaries(gen.keys, ch, max_size=3)),
                              max_leaves=8))
        leaves = [p for p in paths(a) if not isinstance(get(a, p), (list, dict))]
        b = a
        if leaves:
            p = leaves[draw(st.integers(0, len(leaves) - 1))]
            v = get(a, p)
            b = put(a, p, int(v) if isinstance(v, str) and v.isdigit() else str(v))      # same spelling, other type
        if draw(st.booleans()) and isinstance(a, list) and len(a) > 1:
            a = a[1:] + a[:1]                                                             # equal scalars meet off the diagonal
        inp = 'json'
    else:
        a, b = draw(gen.doc_pairs(10, 5))
        inp = 'json'
    return {'kind': kind, 'input': inp, 'a': a, 'b': b, 'args': draw(arg_vectors()), 'via': draw(st.sampled_from(['json', 'json', 'yaml']))}


def jobs(tier):
    js = []
    if tier == 'quick':
        for s in range(16):
            js.append({'kind': 'purity', 'n': 120, 'shard': s})
            js.append({'kind': 'repeat', 'n': 25, 'shard': s})
            js.append({'kind': 'seeds', 'n': 80, 'shard': s, 'tier': tier})
    else:
        for s in range(16):
            js.append({'kind': 'purity', 'n': 1500, 'shard': s})
            js.append({'kind': 'repeat', 'n': 300, 'shard': s})
            js.append({'kind': 'seeds', 'n': 320, 'shard': s, 'tier': tier})
    return js


def write_inputs(case, d=None):
    import xml.etree.ElementTree as ET
    d = d or scratch_dir()
    h = case_hash([case['a'], case['b'], case['input']])
    if case['input'] == 'yaml':
        import yaml
        from .c08 import decode_pairs
        pa, pb = os.path.join(d, f'a{h}.yml'), os.path.join(d, f'b{h}.yml')
        for p, doc in ((pa, case['a']), (pb, case['b'])):
            with open(p, 'w') as f:
                yaml.safe_dump(decode_pairs(doc), f, sort_keys=False)
    elif case['input'] == 'json':
        pa, pb = os.path.join(d, f'a{h}.json'), os.path.join(d, f'b{h}.json')
        for p, doc in ((pa, case['a']), (pb, case['b'])):
            with open(p, 'w') as f:
                json.dump(doc, f)
    else:
        pa, pb = os.path.join(d, f'a{h}.xml'), os.path.join(d, f'b{h}.xml')
        for p, doc in ((pa, case['a']), (pb, case['b'])):
            ET.ElementTree(gen.to_et(doc)).write(p)
    return pa, pb


def run_cli_case(case):
    pa, pb = write_inputs(case)
    try:
        return cli.run_main([pa, pb, '--no-status'] + list(case['args']))
    finally:
        cli.cleanup_files(pa, pb)


def spawn_children(cases_, seeds, parallel=1):
    path = os.path.join(scratch_dir(), f'c07cases{os.getpid()}.json')
    with open(path, 'w') as f:
        json.dump(cases_, f)
    procs = []
    for sd in seeds:
        env = dict(os.environ)
        env['PYTHONHASHSEED'] = sd
        env['PYTHONPATH'] = os.pathsep.join([REPO, VERIF, os.path.join(VERIF, '.deps')])
        mode = ORDERS[len(procs) % len(ORDERS)]
        procs.append((sd, subprocess.Popen([sys.executable, '-m', 'vf.c07child', path, mode], env=env, stdout=subprocess.PIPE,
                                           stderr=subprocess.PIPE, cwd=VERIF)))
        if len(procs) % parallel == 0:
            for _, p in procs[-parallel:]:
                p.wait()
    outs = []
    for sd, p in procs:
        so, se = p.communicate(timeout=3600)
        if p.returncode != 0 or not so:
            raise RuntimeError(f"c07child failed (seed {sd}): rc={p.returncode} {se[-500:]!r}")
        outs.append(json.loads(so))
    os.unlink(path)
    return outs


def run_job(job, seed, sink):
    if job['kind'] != 'seeds':
        hyp_drive(cases(job['kind']), job['n'], seed, sink)
        return
    batch = []
    hyp_drive(cases('seeds'), job['n'], seed, batch.append)
    # 'random' entries are replaced by values derived from the run's seed, so a run stays a pure function of VERIF_SEED
    seeds = [sd if sd != 'random' else str((seed * 2654435761 + 97 * i) % 4294967295) for i, sd in enumerate(SEEDS[job['tier']])]
    outs = spawn_children(batch, seeds)
    for i, case in enumerate(batch):
        _PRE[case_hash(case)] = [o[i] for o in outs]
    for case in batch:
        sink(case)
    _PRE.clear()


# -- purity ---------------------------------------------------------------------------------------------------------------

SKIP_ATTRS = {'_total_size', '_LeafNode__hash', '_KeyValuePairNode__hash', '_edit_modifiers', 'edits', '_parent'}


def snap_value(v, seen):
    from graphtage.tree import TreeNode
    if isinstance(v, TreeNode):
        return ('node', id(v))
    if isinstance(v, dict):
        return ('dict', tuple((snap_value(k, seen), snap_value(x, seen), ) for k, x in v.items()))
    if isinstance(v, (list, tuple)):
        return (type(v).__name__, tuple(snap_value(x, seen) for x in v))
    if hasattr(v, 'tighten_bounds') and hasattr(v, 'bounds'):
        return ('edit', type(v).__name__, id(v))        # which edit objects hang on a node, not their (refinable) bounds
    return (type(v).__name__, repr(v))


def snapshot(root):
    out = []
    stack = [root]
    while stack:
        n = stack.pop()
        attrs = []
        for k, v in sorted(vars(n).items()):
            if k in SKIP_ATTRS:
                continue
            attrs.append((k, snap_value(v, None)))
        attrs.append(('parent', id(n.parent) if n.parent is not None else None))
        out.append((id(n), type(n).__name__, tuple(attrs), tuple(id(c) for c in n.children())))
        stack.extend(reversed(list(n.children())))
    return out


def check_purity(case, out):
    ds = 'auto'
    le = 'on'
    args = case['args']
    if '-k' in args or ('--dict-strategy' in args and args[args.index('--dict-strategy') + 1] == 'none'):
        ds = 'none'
    elif '--dict-strategy' in args:
        ds = args[args.index('--dict-strategy') + 1]
    if '-l' in args:
        le = 'off'
    elif '-ll' in args:
        le = 'same'
    fam = {'family': case['input'], 'a': case['a'], 'b': case['b'], 'ds': ds, 'le': le}
    a = b = None
    if case['input'] == 'yaml' or (case['input'] == 'json' and case.get('via') == 'yaml'):
        # the same documents loaded through the YAML file type: its strings are unquoted (quoted=False)
        try:
            import yaml
            from .c08 import decode_pairs
            opts = common.build_options(ds, le)
            pa = cli.write_file(yaml.safe_dump(decode_pairs(case['a']), sort_keys=False), 'yml', name='pa')
            pb = cli.write_file(yaml.safe_dump(decode_pairs(case['b']), sort_keys=False), 'yml', name='pb')
            try:
                ft = graphtage.FILETYPES_BY_TYPENAME['yaml']
                a, b = ft.build_tree(pa, opts), ft.build_tree(pb, opts)
            finally:
                cli.cleanup_files(pa, pb)
            out.label('purity-via-yaml-loader')
        except Exception:
            a = b = None
    if a is None and case['input'] == 'yaml':
        out.skipped = 'yaml-loader-rejected-document'
        return fam
    if a is None:
        with guard('build'):
            a, b = gen.build(fam, 'a'), gen.build(fam, 'b')
            if case['input'] == 'json' and sum(map(ord, repr(case['a'])[:40])) % 3 == 0 and \
                    gen.valid_case({'family': 'plist', 'a': case['a'], 'b': case['b']}):
                # a property list compared with a plain JSON tree (two file types on the two sides)
                a = gen.build(dict(fam, family='plist'), 'a')
                out.label('purity:plist-vs-json')
    sa, sb = snapshot(a), snapshot(b)

    def compare(after_what):
        na, nb = snapshot(a), snapshot(b)
        if na != sa:
            out.fail('first-tree-altered', f"the first input tree changed during {after_what}: {describe(sa, na)}")
            return False
        if nb != sb:
            out.fail('second-tree-altered', f"the second input tree changed during {after_what}: {describe(sb, nb)}")
            return False
        return True

    with guard('diff'):
        d = a.diff(b)
    if not compare('diff()'):
        return fam
    with guard('get_all_edits'):
        for e in a.get_all_edits(b):
            pass
    if not compare('get_all_edits()'):
        return fam
    with guard('edited_cost'):
        d.edited_cost()
    if not compare('edited_cost()'):
        return fam
    # the result of a diff is a tree a caller may compare again: that second comparison must not alter it either
    sd = snapshot(d)
    with guard('diff of a diff result'):
        d2 = d.diff(b)
        d2.edited_cost()
    nd = snapshot(d)
    if nd != sd:
        out.fail('diff-result-altered-by-second-diff', f"diffing the result of a.diff(b) again changed that result: {describe(sd, nd)}")
        return fam
    if not compare('a second diff of the diff result'):
        return fam
    for fmt in FORMATS:
        try:
            p = Printer(out_stream=common.Cap(), ansi_color=False, quiet=True)
            graphtage.FILETYPES_BY_TYPENAME[fmt].get_default_formatter().print(p, d)
        except Exception:
            out.label('render-exception:' + fmt)
        if not compare(f'rendering as {fmt}'):
            return fam
    return fam


def describe(before, after):
    if len(before) != len(after):
        return f"{len(before)} nodes before, {len(after)} after"
    for x, y in zip(before, after):
        if x != y:
            return f"node {x[1]}: {x[2]!r}/{len(x[3])} children -> {y[2]!r}/{len(y[3])} children"[:400]
    return 'unknown difference'


def mapping_multi(case, fam=None):
    """non-trivial rule: >= 2 removes or inserts inside one mapping edit"""
    try:
        fam = fam or {'family': case['input'], 'a': case['a'], 'b': case['b'], 'ds': 'none', 'le': 'on'}
        a, b = gen.build(fam, 'a'), gen.build(fam, 'b')
        e = a.edits(b)
        common.full_tighten(e)
        rec = walk(e, Problems())
        from graphtage import MappingNode
        for r in rec.all():
            if r.kind == 'unordered' and isinstance(r.f, MappingNode):
                if sum(1 for s in r.subs if s.kind == 'remove') >= 2 or sum(1 for s in r.subs if s.kind == 'insert') >= 2:
                    return True
    except Exception:
        return False
    return False


def digest(r):
    return [repr(r.rc), hashlib.sha256(r.out.encode('utf-8', 'surrogatepass')).hexdigest()[:16], r.exc_key, len(r.out)]


def check(case):
    out = Outcome()
    kind = case['kind']
    out.label('kind:' + kind, 'input:' + case['input'])
    for a in case['args']:
        if a.startswith('-'):
            out.label('arg:' + a)
    if kind == 'purity':
        fam = check_purity(case, out)
        out.nontrivial = mapping_multi(case, fam)
    elif kind == 'repeat':
        results = []
        junk = []
        for i in range(3):
            with guard('main'):
                r = run_cli_case(case)
            results.append(digest(r))
            junk.append([object() for _ in range(1000 * (i + 1))])   # perturb allocation / id() order
            if i == 1:
                junk.clear()
                gc.collect()
        if any(x != results[0] for x in results[1:]):
            out.fail('repeated-invocation-differs', f"args {case['args']}: (status, stdout digest, exception, length) over 3 runs: {results}")
        out.nontrivial = mapping_multi(case)
        out.info = {'result': results[0]}
    else:
        res = _PRE.get(case_hash(case))
        if res is None:
            res = [o[0] for o in spawn_children([case], ['0', '1', '2', '3141592653'], parallel=4)]
        if any(x != res[0] for x in res[1:]):
            out.fail('output-differs-across-processes', f"args {case['args']}: (status, stdout digest, exception, length) per child interpreter "
                     f"(different PYTHONHASHSEED and different replay order of the batch): {res}")
        out.nontrivial = mapping_multi(case)
        out.info = {'result': res[0], 'children': len(res)}
    return out
