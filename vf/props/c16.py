"""C16 - the priority queue always yields a minimum."""
import itertools

from hypothesis import strategies as st

from .. import common
from ..core import Outcome, guard, hyp_drive

from graphtage.fibonacci import FibonacciHeap, MaxFibonacciHeap, ReversedComparator

ID = 'C16'
TITLE = 'The priority queue always yields a minimum'
LEVEL = 'exploration'
TECHNIQUE = ('model-based / stateful: operation histories (Hypothesis-generated long sequences and bounded-exhaustive '
             'short ones) run in lock-step against a list model of live (key, id) items')
RULE = ("A case is (heap kind min|max, key range, operation history). Operations: push(k), pop, peek, "
        "decrease_key(live handle i, new key k' <= k) [increase for the max-heap], pop / peek on an empty queue (whatever they raise, the queue stays empty and usable), an attempted key change on the wrong side (documented to raise ValueError; the queue must carry on unchanged), remove(live handle i), len/bool; "
        "handles are the HeapNodes returned by push and only live handles are used (the documented precondition). "
        "Generated: sequences of up to 60 (quick) / 400 (thorough) operations over keys {0..3} (many duplicates) or "
        "{0..50}, plus 200-2000-operation sequences in the thorough tier. Bounded exhaustive: every sequence of length "
        "<= 5 (quick) / 6 (thorough) over a 15-letter operation alphabet (which includes clear(): the queue is emptied and used again) with keys {0,1,2} and handles addressed by "
        "live position, for both heap kinds. Oracle after every step: len(heap) == number of live items, bool agrees, "
        "peek()/pop() return a live item whose key equals the model's minimum (maximum), never a removed one; utils."
        "smallest/largest (single list or several arguments, n in {1,2,3,5,12}, key functions none / negation / mod 3 / abs / constant) return min(n, len) input items whose keys are the n best keys of sorted(). Non-trivial: a decrease_key or remove executed after at least one pop "
        "(post-consolidation). Distinct by case hash (enumerated sequences are distinct by construction).")
ASSUMPTIONS = [
    "remove() and decrease_key() are only applied to live nodes of the same heap, as their docstrings require",
    "ties: any live item with a minimum key is an acceptable answer",
]
MANIFEST_TEXT = ("Model-based history exploration of FibonacciHeap and MaxFibonacciHeap: exhaustive over all short "
                 "operation sequences on a small key domain and sampled over long sequences with duplicates, so "
                 "consolidation, cuts and cascading cuts after pops are exercised; every step is compared with a list model.")
MANIFEST_NOTE = "Trusts the 20-line list model in this module."
DESIGN_REF = 'DESIGN.md section 3, C16'
SHRINK = {'lists': ['ops', 'items'], 'enums': {'keyfn': None}}

ALPHABET = ([['push', k] for k in (0, 1, 2)] + [['pop'], ['peek'], ['clear']] + [['removeat', i] for i in (0, 1, 2)] +
            [['dec0', i] for i in (0, 1, 2)] + [['dec1', i] for i in (0, 1, 2)])


KEYFNS = {None: None, 'neg': lambda x: -x, 'mod3': lambda x: x % 3, 'abs': abs, 'const': lambda x: 0}


def valid(case):
    if case.get('kind') == 'select':
        return (isinstance(case.get('items'), list) and all(isinstance(x, int) for x in case['items']) and case.get('keyfn') in KEYFNS
                and isinstance(case.get('n'), int) and case['n'] >= 1 and case.get('which') in ('smallest', 'largest')
                and (not case.get('varargs') or len(case['items']) >= 2))
    return case.get('kind') in ('min', 'max') and isinstance(case.get('ops'), list)


@st.composite
def selections(draw):
    items = draw(st.lists(st.integers(-6, 6), min_size=0, max_size=9))
    return {'kind': 'select', 'which': draw(st.sampled_from(['smallest', 'largest'])), 'items': items,
            'n': draw(st.sampled_from([1, 1, 2, 3, 5, 12])), 'keyfn': draw(st.sampled_from([None, None, 'neg', 'mod3', 'abs', 'const'])),
            'varargs': len(items) >= 2 and draw(st.booleans()), 'style': draw(st.sampled_from(['list', 'list', 'generator', 'map', 'tuple']))}


@st.composite
def histories(draw, max_ops, min_ops=0):
    kr = draw(st.sampled_from([3, 3, 4, 50]))
    n = draw(st.integers(min_ops, max_ops))
    op = st.one_of(
        st.tuples(st.just('push'), st.integers(0, kr)),
        st.tuples(st.just('push'), st.integers(0, kr)),
        st.tuples(st.just('pop')), st.tuples(st.just('peek')),
        st.tuples(st.just('dec'), st.integers(0, 30), st.integers(0, kr)),
        st.tuples(st.just('inc'), st.integers(0, 30), st.integers(1, 3)),       # an attempt on the wrong side: refused
        st.tuples(st.just('remove'), st.integers(0, 30)),
        st.tuples(st.just('clear')) if draw(st.integers(0, 2)) == 0 else st.tuples(st.just('len')),
        st.tuples(st.just('len')))
    ops = [list(draw(op)) for _ in range(n)]
    return {'kind': draw(st.sampled_from(['min', 'max'])), 'ops': ops}


def jobs(tier):
    js = []
    if tier == 'quick':
        for s in range(16):
            js.append({'kind': 'gen', 'n': 400, 'max_ops': 60, 'min_ops': 0, 'shard': s})
            js.append({'kind': 'select', 'n': 250, 'shard': s})
            js.append({'kind': 'enum', 'maxlen': 5, 'shard': s})
    else:
        for s in range(16):
            js.append({'kind': 'gen', 'n': 6000, 'max_ops': 400, 'min_ops': 0, 'shard': s})
            js.append({'kind': 'gen', 'n': 150, 'max_ops': 2000, 'min_ops': 200, 'shard': s})
            js.append({'kind': 'select', 'n': 4000, 'shard': s})
            js.append({'kind': 'enum', 'maxlen': 6, 'shard': s})
    return js


def run_job(job, seed, sink):
    if job['kind'] == 'enum':
        i = 0
        for n in range(job['maxlen'] + 1):
            for seq in itertools.product(range(len(ALPHABET)), repeat=n):
                if i % 16 == job['shard']:
                    ops = [ALPHABET[j] for j in seq]
                    sink.fast({'kind': 'min' if (i // 16) % 2 == 0 else 'max', 'ops': ops})
                i += 1
    elif job['kind'] == 'select':
        hyp_drive(selections(), job['n'], seed, sink)
    else:
        hyp_drive(histories(job['max_ops'], job['min_ops']), job['n'], seed, sink)


def heap_len(h):
    """len(heap); Python itself raises ValueError when __len__ returns a negative number"""
    try:
        return len(h)
    except ValueError:
        return -1


def check_select(case):
    """utils.smallest / utils.largest against sorted(): min(n, len) items of the input, and (when fewer than all are asked
    for) their keys are the n best keys in order."""
    from collections import Counter
    from graphtage.utils import largest, smallest
    out = Outcome()
    common.LOOPS.reset(400000)
    items, n, which = case['items'], case['n'], case['which']
    kf = KEYFNS[case.get('keyfn')]
    keyof = kf or (lambda x: x)
    fn = smallest if which == 'smallest' else largest
    with guard(f'utils.{which}'):
        kw = {'n': n}
        if kf is not None:
            kw['key'] = kf
        style = case.get('style', 'list')
        if case.get('varargs'):
            got = list(fn(*items, **kw))
        elif style == 'generator':
            got = list(fn((x for x in items), **kw))        # one-shot iterables without a length
        elif style == 'map':
            got = list(fn(map(int, items), **kw))
        elif style == 'tuple':
            got = list(fn(tuple(items), **kw))
        else:
            got = list(fn(list(items), **kw))
    want_n = min(n, len(items))
    desc = f"{which}({'*' if case.get('varargs') else ''}{items!r}, n={n}, key={case.get('keyfn')})"
    if len(got) != want_n:
        out.fail(f'{which}-count', f"{desc} yields {got!r}: {len(got)} items, expected {want_n}")
    elif Counter(got) - Counter(items):
        out.fail(f'{which}-invents-items', f"{desc} yields {got!r}, not a sub-multiset of the input")
    elif len(items) > n:
        ref = sorted((keyof(x) for x in items), reverse=(which == 'largest'))[:n]
        if [keyof(x) for x in got] != ref:
            out.fail(f'{which}-not-best', f"{desc} yields {got!r} (keys {[keyof(x) for x in got]}), the {n} best keys are {ref}")
    out.nontrivial = len(items) > n and len(set(map(keyof, items))) > 1
    out.label('select:' + which, 'key:' + str(case.get('keyfn')), 'input:' + ('varargs' if case.get('varargs') else case.get('style', 'list')))
    return out


def check(case):
    if case.get('kind') == 'select':
        return check_select(case)
    out = Outcome()
    common.LOOPS.reset(200000 + 2000 * len(case['ops']))      # heap operations are tiny: keep hangs cheap
    maxheap = case['kind'] == 'max'
    with guard('construct'):
        h = (MaxFibonacciHeap if maxheap else FibonacciHeap)(key=lambda it: it[0])
    live = []           # list of [node, item] in push order
    nid = 0
    popped = False
    post = False
    refused = False
    emptied = False
    cleared = False
    executed = 0

    def best():
        ks = [it[0] for _, it in live]
        return max(ks) if maxheap else min(ks)

    def newkey(item, how, arg):
        if how == 'dec0':       # straight to the extreme of the small key domain
            return max(item[0], 2) if maxheap else 0
        if how == 'dec1':       # one step
            return item[0] + 1 if maxheap else max(0, item[0] - 1)
        return max(item[0], arg) if maxheap else min(item[0], arg)      # 'dec': arbitrary key on the allowed side

    for step, op in enumerate(case['ops']):
        name = op[0]
        with guard(f'step {step}: {op}'):
            if name == 'push':
                item = [op[1], nid]
                nid += 1
                node = h.push(item)
                live.append([node, item])
                executed += 1
            elif name == 'pop':
                if not live:
                    # extraction from an empty queue: whatever it answers or raises, the queue must stay empty and usable
                    try:
                        h.pop()
                    except Exception:
                        pass
                    emptied = True
                    if heap_len(h) != 0 or bool(h):
                        out.fail('len-disagrees', f"step {step}: after pop() on an empty queue len(heap) = {heap_len(h)}, bool = {bool(h)}")
                        return out
                    continue
                it = h.pop()
                popped = True
                executed += 1
                idx = next((i for i, (_, x) in enumerate(live) if x is it), None)
                if idx is None:
                    out.fail('pop-returned-dead-item', f"step {step}: pop() returned {it!r}, which is not a live item")
                    return out
                if it[0] != best():
                    out.fail('pop-not-minimum', f"step {step}: pop() returned key {it[0]}, the {'largest' if maxheap else 'smallest'} live key is {best()}")
                    return out
                del live[idx]
            elif name == 'peek':
                if not live:
                    try:
                        h.peek()
                    except Exception:
                        pass
                    if heap_len(h) != 0 or bool(h):
                        out.fail('len-disagrees', f"step {step}: after peek() on an empty queue len(heap) = {heap_len(h)}, bool = {bool(h)}")
                        return out
                    continue
                it = h.peek()
                executed += 1
                if not any(x is it for _, x in live):
                    out.fail('peek-returned-dead-item', f"step {step}: peek() returned {it!r}, which is not a live item")
                    return out
                if it[0] != best():
                    out.fail('peek-not-minimum', f"step {step}: peek() shows key {it[0]}, the {'largest' if maxheap else 'smallest'} live key is {best()}")
                    return out
            elif name in ('dec', 'dec0', 'dec1'):
                if not live or (name != 'dec' and op[1] >= len(live)):
                    continue
                node, item = live[op[1] % len(live)]
                nk = newkey(item, name, op[2] if len(op) > 2 else 0)
                item[0] = nk
                h.decrease_key(node, ReversedComparator(nk) if maxheap else nk)
                executed += 1
                if popped:
                    post = True
            elif name == 'inc':
                # a change on the wrong side of the current key: documented to be refused with ValueError, after which the
                # queue must go on as if nothing happened (if a version accepts it, the model follows the new key)
                if not live:
                    continue
                node, item = live[op[1] % len(live)]
                nk = item[0] - op[2] if maxheap else item[0] + op[2]
                try:
                    h.decrease_key(node, ReversedComparator(nk) if maxheap else nk)
                except ValueError:
                    refused = True
                else:
                    item[0] = nk
                executed += 1
            elif name in ('remove', 'removeat'):
                if not live or (name == 'removeat' and op[1] >= len(live)):
                    continue
                node, item = live.pop(op[1] % len(live))
                h.remove(node)
                executed += 1
                if popped:
                    post = True
            elif name == 'clear':
                h.clear()           # the queue is emptied and used again (search.py does this with its two queues)
                live.clear()
                cleared = True
                executed += 1
            elif name == 'len':
                pass
            if heap_len(h) != len(live):
                out.fail('len-disagrees', f"step {step} ({op}): len(heap) = {heap_len(h)}, live items = {len(live)}")
                return out
            if heap_len(h) >= 0 and bool(h) != bool(live):
                out.fail('bool-disagrees', f"step {step} ({op}): bool(heap) = {bool(h)}, live items = {len(live)}")
                return out
    # drain: everything left comes out in order
    with guard('drain'):
        prev = None
        while live:
            it = h.pop()
            idx = next((i for i, (_, x) in enumerate(live) if x is it), None)
            if idx is None:
                out.fail('pop-returned-dead-item', f"drain: pop() returned {it!r}, which is not a live item")
                return out
            if it[0] != best():
                out.fail('pop-not-minimum', f"drain: pop() returned key {it[0]}, best live key is {best()}")
                return out
            del live[idx]
        if heap_len(h) != 0 or bool(h):
            out.fail('len-disagrees', f"after draining: len(heap) = {heap_len(h)}")
    out.nontrivial = post
    out.label('max' if maxheap else 'min')
    if refused:
        out.label('refused-key-change')
    if cleared:
        out.label('cleared-and-reused')
    if emptied:
        out.label('pop-on-empty')
    if post:
        out.label('decrease/remove-after-pop')
    out.info = {'executed_ops': executed}
    return out
