"""C09 - the same data compares as equal regardless of input file format."""
import itertools
import json

from hypothesis import strategies as st

from .. import cli, common, gen
from ..canon import plain, strict
from ..core import Outcome, guard, hyp_drive

import graphtage

ID = 'C09'
TITLE = 'The same data compares as equal regardless of input file format'
LEVEL = 'exploration'
TECHNIQUE = ('metamorphic over file formats: Hypothesis-generated data expressible in JSON, JSON5, YAML and plist is '
             'serialised with independent libraries, loaded by graphtage and compared across all 16 ordered format pairs')
RULE = ("Cases: a document x (string keys, lists, mappings, booleans, 64-bit ints, finite floats, strings without "
        "XML-illegal control characters, no null) and a second document c (independent, mutated, or x with one scalar re-typed to an equal-looking value: true <-> 1, 1 <-> '1'), x build options; in a quarter of the cases one container is referenced from two places, so that the YAML file contains an anchor and an alias. Strings include spellings that look like numbers or special scalars in some syntax ('1e5', '0x1F', 'on', '2001-01-01'). x and c are written with "
        "json.dumps (as .json and .json5), yaml.safe_dump and plistlib.dumps, or (half of the cases) with alternative spellings: indented JSON with raw non-ASCII, JSON5 with a leading comment and trailing commas, block-style YAML with an explicit document start, binary plists; strings include pieces of syntax ('[a, b, ]', '// x', 'http://...'); in four cases out of five the first document is also piped to standard input under a stdin text encoding of latin-1 / utf-8 / ascii / cp1252; a file is kept only if the independent "
        "parser of its format (json.loads, json5.loads, yaml.safe_load, plistlib.loads) reads back exactly the document "
        "(otherwise the case is discarded and counted). Oracle for every ordered pair of formats (f, g): canonical "
        "value of load_f(x) equals that of load_g(x); the two roots compare ==; load_f(x).diff(load_g(x)) costs 0; "
        "main([x.f, x.g]) returns 0; and cost(load_f(x), load_g(c)) is the same for all 16 pairs. Non-trivial: nested "
        "document with at least one mapping and one list. Distinct by case hash.")
ASSUMPTIONS = [
    "data outside the common domain of the four formats (null, non-string keys, NaN/inf, control characters) is not generated",
    "documents whose serialisation does not round-trip through the independent parser of a format are discarded and counted, never blamed on graphtage",
]
MANIFEST_TEXT = ("Cross-format metamorphic check over all ordered pairs of the four data formats, at the tree level and "
                 "through the command line's exit status, including a triangle check against a third document. "
                 "Exploration over bounded documents; the known plist-wrapper finding F13 is excluded by key and reported.")
MANIFEST_NOTE = "Trusts json, json5, PyYAML's SafeLoader and plistlib as independent readers of the files written."
DESIGN_REF = 'DESIGN.md section 3, C09'
SHRINK = {'docs': ['x', 'c'], 'enums': {'ds': 'auto', 'le': 'on', 'share': False, 'native': False, 'stdin_enc': None}}

FMTS = ['json', 'json5', 'yaml', 'plist']

xmlsafe = st.text(alphabet=st.characters(min_codepoint=32, max_codepoint=0x2FF, blacklist_characters='\x7f'), max_size=6)
scal = st.one_of(st.booleans(), st.integers(-2 ** 63, 2 ** 63 - 1), st.integers(-5, 300),
                 st.floats(allow_nan=False, allow_infinity=False), st.sampled_from([0.5, -0.0, 1e10, 1.0, 1e-7]), xmlsafe,
                 st.sampled_from(['1', 'true', 'null', 'yes', '~', '1.0', '', ' ', 'a: b', '- x', '#c', "'", '"']),
                 # strings that contain pieces of syntax: brackets after commas, comment openers, URLs
                 st.sampled_from(['[a, b, ]', '{x,}', 'a, ]', 'http://e.x/p', '/* c */ x', '// not a comment', 'x,}', ',]', 'a /* b', '<!-- c -->',
                                  '&amp;', '<k>', '# x', 'Zürich', 'naïve café', 'a\rb', 'x\r\ny', 'tab\there', 'nl\nnl']),
                 # strings that look like numbers / special scalars in one syntax or another
                 st.sampled_from(['1e5', '12E3', '1.5e3', '7e-2', '0x1F', '0o17', '1_000', '+1', '.5', '1.', 'NaN', '.inf', 'on', 'No',
                                  '2001-01-01', '1:30', '0b11', '1e+5', 'Infinity', '-0', '00', '1,5']))


# keys: arbitrary text, plus groups that differ only by case / digits (writers order them differently: json keeps document
# order, yaml.safe_dump and plistlib sort)
ckeys = st.one_of(xmlsafe, st.sampled_from(['a', 'A', 'ab', 'Ab', 'AB', 'k1', 'K1', 'b', 'B', 'z']))


def cdocs(max_leaves):
    return st.recursive(scal, lambda ch: st.one_of(st.lists(ch, max_size=3), st.dictionaries(ckeys, ch, max_size=4)),
                        max_leaves=max_leaves)


@st.composite
def retyped(draw, x):
    """x with one scalar replaced by an equal-looking scalar of another type (true <-> 1, 1 <-> 1.0 <-> "1", ...)"""
    from .c02 import get, paths, put
    leaves = [p for p in paths(x) if not isinstance(get(x, p), (list, dict))]
    if not leaves:
        return x
    p = leaves[draw(st.integers(0, len(leaves) - 1))]
    v = get(x, p)
    if isinstance(v, bool):
        nv = draw(st.sampled_from([int(v), str(v).lower(), float(v)]))
    elif isinstance(v, int):
        nv = draw(st.sampled_from([bool(v) if v in (0, 1) else str(v), str(v), float(v)]))
    elif isinstance(v, float):
        nv = draw(st.sampled_from([str(v), int(v) if v == int(v) and abs(v) < 2 ** 53 else str(v)]))
    else:
        nv = draw(st.sampled_from([True, 1, v + ' ']))
    return put(x, p, nv)


@st.composite
def casekey_docs(draw):
    """a mapping whose keys differ only by case, written in an order no sorting writer would produce, and a third document
    whose keys do not all match by name (so that pairings tie)"""
    grp = draw(st.sampled_from([['a', 'A'], ['ab', 'Ab', 'AB'], ['k1', 'K1'], ['b', 'B']]))
    vals = st.sampled_from(['ab', 'b', 'b', 'x', 1, 'abc'])
    ks = list(reversed(sorted(grp)))                  # lower case first: json.dumps keeps this order, the sorting writers do not
    x = {k: draw(vals) for k in ks}
    if draw(st.booleans()):
        x['z'] = draw(vals)
    others = draw(st.lists(st.sampled_from(['c', 'q', 'zz', 'a2', 'z']), min_size=1, max_size=3, unique=True))
    c = {k: draw(vals) for k in others}
    if draw(st.booleans()):
        c[grp[0]] = draw(vals)
    if draw(st.booleans()):
        x, c = {'w': x, 'n': 1}, {'w': c, 'n': 1}
    return x, c


@st.composite
def cases(draw, max_leaves):
    D = cdocs(max_leaves)
    x = draw(D)
    c = draw(st.one_of(D, gen.mutate(x, D, scal), retyped(x), retyped(x)))
    if draw(st.integers(0, 4)) == 0:
        x, c = draw(casekey_docs())
    ds, le = draw(gen.options)
    return {'x': x, 'c': c, 'ds': ds, 'le': le, 'share': draw(st.integers(0, 3)) == 0, 'native': draw(st.booleans()),
            'stdin_enc': draw(st.sampled_from([None, 'latin-1', 'utf-8', 'ascii', 'cp1252']))}


def jobs(tier):
    n, ml = (36, 8) if tier == 'quick' else (320, 14)
    return [{'n': n, 'max_leaves': ml, 'shard': s} for s in range(16)]


def run_job(job, seed, sink):
    hyp_drive(cases(job['max_leaves']), job['n'], seed, sink)


def in_domain(d):
    if d is None:
        return False
    if isinstance(d, dict):
        return all(isinstance(k, str) and in_domain(v) for k, v in d.items())
    if isinstance(d, list):
        return all(in_domain(v) for v in d)
    if isinstance(d, bool):
        return True
    if isinstance(d, int):
        return -2 ** 63 <= d < 2 ** 63
    if isinstance(d, float):
        return d == d and d not in (float('inf'), float('-inf'))
    return isinstance(d, str)


def valid(case):
    return in_domain(case.get('x')) and in_domain(case.get('c')) and case.get('ds') in common.DS and case.get('le') in common.LE


def dump_json5_native(doc):
    """JSON5 as people write it: a comment first, trailing commas in every container (keys and strings double-quoted)"""
    def rec(d):
        if isinstance(d, dict):
            return '{' + ''.join(f"{json.dumps(k)}: {rec(v)}, " for k, v in d.items()) + '}'
        if isinstance(d, list):
            return '[' + ''.join(f"{rec(v)}, " for v in d) + ']'
        return json.dumps(d)
    return '// written by hand\n' + rec(doc) + '\n'


def dump_native(doc, f):
    """an alternative, equally valid spelling of the document in each format"""
    if f == 'json':
        return json.dumps(doc, indent=2, ensure_ascii=False) + '\n'
    if f == 'json5':
        return dump_json5_native(doc)
    if f == 'yaml':
        import yaml
        return yaml.safe_dump(doc, default_flow_style=False, allow_unicode=True, explicit_start=True, sort_keys=False)
    if f == 'plist':
        import plistlib
        return plistlib.dumps(doc, fmt=plistlib.FMT_BINARY, sort_keys=False)
    raise ValueError(f)


def write_all(doc, tag, native=False):
    """-> {fmt: path} or None if some format cannot represent the document faithfully."""
    paths = {}
    want = strict(doc)
    for f in FMTS:
        try:
            data = dump_native(doc, f) if native else cli.dump_doc(doc, f)
            back = cli.load_doc(data, f)
        except Exception:
            return None
        if strict(back) != want:
            return None
        paths[f] = cli.write_file(data, cli.EXT[f], name=tag)
    return paths


def has_list_and_mapping(d):
    found = set()

    def rec(x, depth):
        if isinstance(x, dict):
            found.add('m')
            for v in x.values():
                rec(v, depth + 1)
        elif isinstance(x, list):
            found.add('l')
            for v in x:
                rec(v, depth + 1)
    rec(d, 0)
    return found == {'m', 'l'}


def with_sharing(x):
    """The same document with its first non-empty container referenced from two places (one Python object): PyYAML then
    writes an anchor and an alias, the other formats simply write the data twice."""
    found = []

    def rec(d):
        if found:
            return
        if isinstance(d, (list, dict)) and len(d) > 0:
            found.append(d)
            return
        if isinstance(d, dict):
            for v in d.values():
                rec(v)
        elif isinstance(d, list):
            for v in d:
                rec(v)
    rec(x)
    if not found:
        return x
    s_ = found[0]
    return {'s1': s_, 's2': s_, 'rest': x if x is not s_ else 0}


def check(case):
    out = Outcome()
    x, c = case['x'], case['c']
    if case.get('share'):
        x, c = with_sharing(x), with_sharing(c)
    if not (in_domain(x) and in_domain(c)):
        out.skipped = 'outside-common-domain'
        return out
    opts = common.build_options(case.get('ds', 'auto'), case.get('le', 'on'))
    px = write_all(x, 'x', bool(case.get('native')))
    pc = write_all(c, 'c', bool(case.get('native'))) if px else None
    if not px or not pc:
        cli.cleanup_files(*(list((px or {}).values()) + list((pc or {}).values())))
        out.skipped = 'serialisation-does-not-round-trip'
        return out
    FT = graphtage.FILETYPES_BY_TYPENAME
    try:
        def load(path, f):
            return FT[f].build_tree(path, opts)

        want = strict(x)
        trees = {}
        for f in FMTS:
            with guard(f'load {f}'):
                trees[f] = load(px[f], f)
            got = plain(trees[f], True)
            if got != want:
                out.fail(f'loaded-value-differs:{f}', f"{f} loader reads {got!r}, the file holds {want!r}")
        if out.failures:
            return out
        base_cost = None
        for f, g in itertools.product(FMTS, FMTS):
            pair = f'{f}->{g}'
            with guard(f'load {pair}'):
                a, b, cc = load(px[f], f), load(px[g], g), load(pc[g], g)
            with guard(f'== {pair}'):
                eq = (a == b)
            if not eq:
                out.fail(f'not-equal-as-trees:{pair}', f"the same data loaded from {f} and from {g} compares unequal (==): {x!r}")
            with guard(f'diff {pair}'):
                cost = a.diff(b).edited_cost()
            if cost != 0:
                out.fail(f'nonzero-cost:{pair}', f"the same data loaded from {f} and from {g} diffs to cost {cost}: {x!r}")
            with guard(f'diff third {pair}'):
                a2 = load(px[f], f)
                k = a2.diff(cc).edited_cost()
            if base_cost is None:
                base_cost = k
            elif k != base_cost:
                out.fail(f'third-document-cost-varies:{pair}', f"cost(x as {f}, c as {g}) = {k} but cost(x as json, c as json) = {base_cost}: "
                                                              f"x={x!r} c={c!r}")
            args = [px[f], px[g], '--no-status', '--no-color']
            if case.get('ds', 'auto') != 'auto':
                args += ['--dict-strategy', case['ds']]
            if case.get('le') == 'off':
                args.append('-l')
            elif case.get('le') == 'same':
                args.append('-ll')
            r = cli.run_main(args)
            if r.exc is not None:
                # the command did not exit with status 0; *which* internal error it was is C13's business
                out.fail(f'exit-status:{pair}', f"main() raised {r.exc_key} instead of returning 0 for the same data as {f} and as {g}: {x!r}")
            elif r.rc != 0:
                out.fail(f'exit-status:{pair}', f"main() returned {r.rc!r} for the same data as {f} and as {g}: {x!r}")
            elif case.get('stdin_enc') and f != g:
                # the first document arrives on standard input, whose text layer has some locale encoding (the bytes are the file's)
                with open(px[f], 'rb') as fh:
                    raw = fh.read()
                r = cli.run_main(['-', px[g], f'--from-{f}'] + args[2:], stdin=raw, stdin_encoding=case['stdin_enc'])
                if r.exc is not None or r.rc != 0:
                    out.fail(f'exit-status:stdin:{pair}', f"the {f} document piped to standard input (stdin encoding {case['stdin_enc']}) against the same data "
                                                          f"as {g}: rc={r.rc!r} exc={r.exc_key}: {x!r}")
    finally:
        cli.cleanup_files(*(list(px.values()) + list(pc.values())))
    out.nontrivial = has_list_and_mapping(x)
    out.label('ds:' + case.get('ds', 'auto'), 'le:' + case.get('le', 'on'), 'native-spellings' if case.get('native') else 'library-spellings',
              'stdin:' + str(case.get('stdin_enc')))
    if out.nontrivial:
        out.label('nested')
    out.info = {'third_cost': base_cost}
    return out
