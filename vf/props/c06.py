"""C06 - both documents can be read back from the rendered diff."""
import json

from hypothesis import strategies as st

from .. import common, gen, render
from ..canon import loose, strict
from ..core import Outcome, guard, hyp_drive

ID = 'C06'
TITLE = 'Both documents can be read back from the rendered diff'
LEVEL = 'exploration'
TECHNIQUE = ('Hypothesis-generated pairs with a hostile string alphabet x layouts; the rendered ANSI text is classified '
             'character by character, projected on each side and parsed by an independent separator-tolerant JSON parser; differential of the ~~/++ marks of the colourless rendering against the ANSI classification')
RULE = ("Cases: mutated pairs of JSON-representable documents whose strings come from a hostile alphabet (quotes, "
        "backslashes, '->', '~~', '++', control characters, non-ASCII incl. the two combining marks themselves) x dict "
        "strategy x join_lists x join_dict_items; plus lists with several equal container siblings of which one changes, and mappings with several keys renamed at once (some to keys of equal length); rendered with JSONFormatter on Printer(ansi_color=True). Oracle: an "
        "ANSI state machine + combining-mark reader classifies every output character as kept / removed / inserted / "
        "arrow; the full stream is lexed into JSON tokens; projecting away the inserted (resp. removed) class and "
        "parsing with a comma-tolerant parser must give a document canonically equal to a (resp. b); change marks are "
        "present iff the documents differ. Pairs without a tilde or plus in any string are rendered once more on Printer(ansi_color=False): the ~~ / ++ marks read as toggles must be balanced, the unmarked text must equal the ANSI text, and every character under a mark must carry the same class in the ANSI rendering (a Replace is shown as 'old -> new' without marks there, so unmarked characters are not compared). Non-trivial: the rendering has both removed and inserted marks and either a "
        "string token with mixed classes or a container under a mark. Distinct by case hash.")
ASSUMPTIONS = [
    "separator (comma) placement is ignored, as the property allows",
    "documents are compared modulo int/float spelling of equal numbers (1 vs 1.0), which is C02's ambiguous class",
    "JSON output escapes all non-ASCII characters, so the combining marks U+0336 / U+031F in the stream are always marks",
]
MANIFEST_TEXT = ("Round-trip oracle on the rendered diff itself: both input documents must be recoverable from the "
                 "classified character stream for generated nested pairs with hostile strings under all layouts. "
                 "Exploration over bounded documents.")
MANIFEST_NOTE = "Trusts vf/render.py (classifier, lexer, tolerant parser) and json.loads for token values."
DESIGN_REF = 'DESIGN.md section 3, C06'
SHRINK = {'docs': ['a', 'b'], 'enums': {'ds': 'auto', 'jl': False, 'jd': False}}

HOSTILE = ['', 'a', 'ab', 'ba', '"', '\\', '\\"', ' -> ', '->', '~~', '++', '~~a~~', '++b++', '\n', '\t', '\x00', '\x1b[41m',
           'é', '中', '😀', '̶', '̟', 'a̶', '{', '}', '[', ']', ',', ':', 'null', 'true', '1', "'", 'a"b', '\\u0041',
           ' ', 'x y']

hostile_strings = st.one_of(st.sampled_from(HOSTILE),
                            st.lists(st.sampled_from(HOSTILE), min_size=1, max_size=3).map(''.join),
                            st.text(max_size=4))
leaf = st.one_of(st.none(), st.booleans(), st.integers(-3, 300), st.sampled_from([0.5, -2.5, 1e10, 1.0]), hostile_strings,
                 hostile_strings)
hkeys = st.one_of(gen.keys, st.sampled_from(['"', '->', '~~', 'é', '', 'a b', '\\', '̶']))


def hdocs(max_leaves):
    return st.recursive(leaf, lambda ch: st.one_of(st.lists(ch, max_size=4), st.dictionaries(hkeys, ch, max_size=4)),
                        max_leaves=max_leaves)


@st.composite
def cases(draw, max_leaves):
    D = hdocs(max_leaves)
    a = draw(D)
    b = draw(st.one_of(D, gen.mutate(a, D, leaf), gen.mutate(a, D, leaf)))
    return {'a': a, 'b': b, 'ds': draw(st.sampled_from(common.DS)), 'jl': draw(st.booleans()), 'jd': draw(st.booleans())}


def jobs(tier):
    n, ml = (220, 10) if tier == 'quick' else (4000, 20)
    js = [{'kind': 'hostile', 'n': n, 'max_leaves': ml, 'shard': s} for s in range(16)]
    js += [{'kind': 'dupsib', 'n': n // 4, 'shard': s} for s in range(16)]
    js += [{'kind': 'renames', 'n': n // 4, 'shard': s} for s in range(16)]
    return js


@st.composite
def rename_cases(draw):
    """mappings in which several keys are renamed at once (some to keys of the same length) and values change size"""
    ks = draw(st.lists(st.sampled_from(['user', 'name', 'id', 'ix', 'key', 'kez', 'a', 'email', 'e-mail', 'q\"k']), min_size=2, max_size=4, unique=True))
    vals = st.one_of(st.integers(0, 99), st.sampled_from(['x', 'abc', 'abd', 'a longer string value', 'a longer string valuE', '']),
                     st.lists(st.integers(0, 9), max_size=4))
    a = {k: draw(vals) for k in ks}
    b = {}
    for k, v in a.items():
        how = draw(st.integers(0, 4))
        k2 = k
        if how in (1, 2):
            k2 = draw(st.sampled_from([k[:-1] + 'z', k[::-1], k + 's', 'n' + k[1:]]))
        v2 = draw(vals) if how in (2, 3) else v
        if k2 not in b:
            b[k2] = v2
    if draw(st.integers(0, 2)) == 0:
        a, b = [a, 1], [b, 1]
    return {'a': a, 'b': b, 'ds': draw(st.sampled_from(common.DS)), 'jl': draw(st.booleans()), 'jd': draw(st.booleans())}


def run_job(job, seed, sink):
    if job.get('kind', 'hostile') == 'hostile':
        hyp_drive(cases(job['max_leaves']), job['n'], seed, sink)
    elif job['kind'] == 'dupsib':
        strat = st.tuples(gen.dup_sibling_cases(), st.booleans(), st.booleans()).map(
            lambda t: {'a': t[0]['a'], 'b': t[0]['b'], 'ds': t[0]['ds'], 'jl': t[1], 'jd': t[2]})
        hyp_drive(strat, job['n'], seed, sink)
    else:
        hyp_drive(rename_cases(), job['n'], seed, sink)


def valid(case):
    try:
        json.dumps(case['a'])
        json.dumps(case['b'])
    except Exception:
        return False
    return case.get('ds') in common.DS


def check(case):
    out = Outcome()
    a, b = case['a'], case['b']
    fam = {'family': 'json', 'a': a, 'b': b, 'ds': case.get('ds', 'auto'), 'le': 'on'}
    with guard('build+diff'):
        ta, tb = gen.build(fam, 'a'), gen.build(fam, 'b')
        d = ta.diff(tb)
    verify(case, out, d, a, b, '')
    if out.failures:
        return out
    # the result of diff() is a tree equal to the first document: diffed once more (against the second document again, or
    # against a fresh copy of the first) and rendered, it must again read back as exactly the two documents compared
    again = case.get('rediff') or ('a', 'b')[sum(map(ord, repr(a)[:30])) % 2]
    other = a if again == 'a' else b
    with guard('diff of a diff result'):
        d2 = d.diff(gen.build(fam, again))
    nt = out.nontrivial
    verify(case, out, d2, a, other, f'(a.diff(b) diffed again with {again}) ')
    out.nontrivial = nt
    out.label('rediff:' + again)
    return out


def verify(case, out, d, a, b, tag):
    la, lb = loose(a), loose(b)
    with guard('render'):
        text = render.render_json(d, join_lists=bool(case.get('jl')), join_dict_items=bool(case.get('jd')))
    chars = render.classify(text)
    marks = render.has_marks(chars)
    classes = {k for _, k in chars}
    try:
        toks = render.lex(chars)
    except render.LexError as e:
        out.fail('render-not-lexable', f"{tag}{e}; a={a!r} b={b!r}; text={text[:200]!r}")
        return out
    mixed_string = any(kind == 'str' and len({k for u in cs for _, k in u}) > 1 for kind, cs in toks)
    marked_container = any(kind in '{}[]' and cs[0][1] in 'RI' for kind, cs in toks)
    out.nontrivial = 'R' in classes and 'I' in classes and (mixed_string or marked_container)
    if not tag:
        out.label('ds:' + case.get('ds', 'auto'), 'jl' if case.get('jl') else 'nl-lists', 'jd' if case.get('jd') else 'nl-dicts')
        if mixed_string:
            out.label('mixed-string')
        if marked_container:
            out.label('marked-container')
    if 'X' in classes:
        out.fail('both-marks-on-one-character', f"{tag}a={a!r} b={b!r}; text={text[:200]!r}")
        return out
    for drop, want, doc, name in (('I', la, a, 'first'), ('R', lb, b, 'second')):
        try:
            got = render.parse(render.project(toks, drop))
        except render.LexError as e:
            out.fail(f'{name}-document-not-readable', f"{tag}dropping {'inserted' if drop == 'I' else 'removed'} text: {e}; a={a!r} b={b!r}; "
                                                     f"text={text[:300]!r}")
            continue
        if loose(got) != want:
            out.fail(f'{name}-document-differs', f"{tag}dropping {'inserted' if drop == 'I' else 'removed'} text reads back {got!r}, "
                                                f"{name} document is {doc!r}; text={text[:300]!r}")
    if marks and la == lb and strict(a) == strict(b):       # (a number re-spelled as int / float may be shown as a change)
        out.fail('marks-on-equal-documents', f"{tag}a={a!r} b={b!r}; text={text[:200]!r}")
    if not marks and la != lb:
        out.fail('no-marks-on-different-documents', f"{tag}a={a!r} b={b!r}; text={text[:200]!r}")
    out.info = {'marks': marks, 'len': len(text)}
    plain_marks(case, out, d, a, b, tag, chars)
    return out


def _strings(v):
    if isinstance(v, str):
        yield v
    elif isinstance(v, dict):
        for k, x in v.items():
            yield from _strings(k)
            yield from _strings(x)
    elif isinstance(v, (list, tuple)):
        for x in v:
            yield from _strings(x)


def plain_marks(case, out, d, a, b, tag, chars):
    # The same diff on a printer without ANSI colour (what a pipe or a file receives) marks removed text as ~~...~~ and
    # inserted text as ++...++.  When no string of either document contains a tilde or a plus the marks are unambiguous:
    # read as toggles they must be balanced and must classify every visible character exactly as the ANSI rendering does.
    if any('~' in s or '+' in s for doc in (a, b) for s in _strings(doc)):
        return
    with guard('render without ANSI'):
        plain = render.render_json(d, join_lists=bool(case.get('jl')), join_dict_items=bool(case.get('jd')), ansi=False)
    out.label('plain-marks-judged')
    state = {'R': False, 'I': False}
    got = []
    i = 0
    while i < len(plain):
        two = plain[i:i + 2]
        if two == '~~' or two == '++':
            k = 'R' if two == '~~' else 'I'
            state[k] = not state[k]
            i += 2
            continue
        got.append((plain[i], 'X' if state['R'] and state['I'] else 'R' if state['R'] else 'I' if state['I'] else 'K'))
        i += 1
    ctx = f"{tag}a={a!r} b={b!r}; plain text={plain[:300]!r}"
    if state['R'] or state['I']:
        out.fail('plain-marks-unbalanced', ctx)
        return
    want = [(c, 'K' if k == 'A' else k) for c, k in chars]
    if [c for c, _ in got] != [c for c, _ in want]:
        out.fail('plain-text-differs-from-ansi-text', ctx)
        return
    # (a Replace is shown as 'old -> new' without ~~/++ in this mode, so the two renderings are not required to agree on the
    # class of every character; agreement is required only where the plain rendering does carry a mark)
    for (c, k), (_, w) in zip(got, want):
        if k in 'RIX' and k != w and not c.isspace():
            out.fail('plain-marks-disagree-with-ansi-marks', f"character {c!r} is {k} in the plain rendering and {w} in the ANSI rendering; {ctx}")
            return
