"""C13 - any input type can be rendered in any output format and mode."""
import csv
import io
import itertools
import json
import pickle
import plistlib
import xml.etree.ElementTree as ET

from hypothesis import strategies as st

from .. import cli, common, gen
from ..core import Outcome, hyp_drive

ID = 'C13'
TITLE = 'Any input type can be rendered in any output format and mode'
LEVEL = 'exploration'
TECHNIQUE = ('complete enumeration of the finite configuration space (input type x output format x mode x style x '
             'condensed x identical/different) over fixed and Hypothesis-generated document sets, run through main() in-process, '
             'plus status-on invocations writing to real output streams')
RULE = ("Configurations (enumerated completely): input type {json, json5, yaml, csv, xml, html, plist, pickle} x --format "
        "{none + the same eight} x mode {full, -e, -d} x style {default, --color, --no-color, --html, --html --color, --html --no-color} x {-j, not} x "
        "{different files, identical files}: 648 invocations per input type and document set, plus 54 invocations per set (format x mode x {default, --no-color}) with status output ON and real output streams (files with descriptors, which selects the Printer's line-buffered tqdm.write path that a terminal or pipe gets). Document sets (also with control characters, elements gaining or losing text, and non-finite / extreme numbers): 3 fixed per input type "
        "(quick; one of them with characters every format must escape, and non-string mapping keys for yaml/pickle) / + 12 generated per input type (thorough; JSON-like documents, tables for CSV, element trees for "
        "XML/HTML, null-free documents for plist, pickle.dumps of documents for pickle). Oracle: main() returns 0 or 1 "
        "and no exception escapes; failures are bucketed by (exception type, innermost graphtage frame). Non-trivial: "
        "input type != output format and the files differ. Every configuration of a document set is a distinct case.")
ASSUMPTIONS = [
    "HTML inputs are well-formed XHTML (the HTML file type parses with ElementTree)",
    "a status other than 0/1 or any escaping exception (including SystemExit from argparse) counts as an internal error",
]
MANIFEST_TEXT = ("The whole cross product of input types, output formats, modes and flags promised by the README is "
                 "enumerated for several document sets per input type; every invocation must complete with status 0 or 1.")
MANIFEST_NOTE = "Trusts the in-process driver vf/cli.py to report exactly what escapes graphtage.__main__.main."
DESIGN_REF = 'DESIGN.md section 3, C13'
SHRINK = {'docs': ['a', 'b'], 'enums': {'mode': 'full', 'style': None, 'j': False, 'identical': False, 'status': False}}

INPUTS = ['json', 'json5', 'yaml', 'csv', 'xml', 'html', 'plist', 'pickle']


def _eff(case):
    return case.get('format') or case.get('input')


def _has_null(d):
    if d is None:
        return True
    if isinstance(d, dict):
        return any(_has_null(v) for v in d.values())
    if isinstance(d, list):
        return any(_has_null(v) for v in d)
    return False


PREDICATES = {
    # F15: cross-format adapters wrap live nodes in new container nodes
    'reparenting_adapter': lambda case, key, detail: (
        (case.get('input') in ('xml', 'html') and _eff(case) in ('json', 'json5', 'yaml', 'csv', 'plist', 'pickle'))
        or (case.get('input') in ('plist', 'pickle') and _eff(case) == 'yaml')
        or (_eff(case) == 'yaml' and case.get('mode') == '-d')),
    # F16: plist has no null
    'null_to_plist': lambda case, key, detail: _eff(case) == 'plist' and (_has_null(case.get('a')) or _has_null(case.get('b'))),
}
FORMATS = [None] + INPUTS
MODES = ['full', '-e', '-d']
STYLES = [None, '--color', '--no-color', '--html', '--html --color', '--html --no-color']


def EXHAUSTIVE(tier):
    return True


def coverage_extra(tier):
    return {'explanation': 'exhaustive over the 648 configurations per document set; the document sets themselves are sampled',
            'configurations_per_document_set': len(FORMATS) * len(MODES) * len(STYLES) * 2 * 2}


X1 = {'tag': 'root', 'attrib': {'id': '1'}, 'text': 'hello', 'children': [
    {'tag': 'a', 'attrib': {}, 'text': None, 'children': []}, {'tag': 'b', 'attrib': {'k': 'v'}, 'text': 't', 'children': []}]}
X2 = {'tag': 'root', 'attrib': {'id': '2', 'n': 'x'}, 'text': 'hallo', 'children': [
    {'tag': 'b', 'attrib': {'k': 'w'}, 'text': 't', 'children': [{'tag': 'c', 'attrib': {}, 'text': None, 'children': []}]}]}
X3 = {'tag': 'html', 'attrib': {}, 'text': None, 'children': [{'tag': 'body', 'attrib': {}, 'text': None, 'children': [
    {'tag': 'p', 'attrib': {'class': 'x'}, 'text': 'one', 'children': []}]}]}
X4 = {'tag': 'html', 'attrib': {}, 'text': None, 'children': [{'tag': 'body', 'attrib': {}, 'text': None, 'children': [
    {'tag': 'p', 'attrib': {'class': 'y'}, 'text': 'two', 'children': []}, {'tag': 'br', 'attrib': {}, 'text': None, 'children': []}]}]}
J1 = {'name': 'x', 'list': [1, 2, {'a': None}], 'flag': True, 'n': 1.5}
J2 = {'name': 'y', 'list': [1, 3, {'a': 'b'}, []], 'flag': False, 'm': {}}
J3 = [1, 'two', [3.0, None], {'k': 'v'}]
J4 = [1, 'too', [3.5], {'k': 'w', 'z': [True]}]
P1 = {'name': 'x', 'list': [1, 2, {'a': 'q'}], 'flag': True, 'n': 1.5}
P2 = {'name': 'y', 'list': [1, 3, {'a': 'b'}, []], 'flag': False, 'm': {}}
T1 = [['a', 'b', 'c'], ['1', '2', '3']]
T2 = [['a', 'b', 'd'], ['1', '5', '3'], ['x', 'y', 'z']]
# documents with characters every output format has to escape, and (yaml/pickle only) non-string mapping keys
E1 = {'note': 'say "hi" \\ back\nnext <b> & </b>', 'list': ['a&b', '<x>', "it's", '\t', 'two\nlines'], 'q"k': 1, 'same': 'first line\nsecond line\n'}
E2 = {'note': 'say "ho" \\ back\nnext <i> & </i>', 'list': ['a&c', '<y>', "it's", '', 'two\nlines'], 'q"k': 2, 'new': '"', 'same': 'first line\nsecond line\n'}
# (mappings with non-string keys are written as {'__pairs__': [[key, value], ...]} so that cases stay JSON replay files)
K1 = {'__pairs__': [[1, 'one'], [2.5, ['x', {'__pairs__': [[3, None]]}]], [True, 'yes'], ['name', {'__pairs__': [[7, 7]]}]]}
K2 = {'__pairs__': [[1, 'uno'], [2.5, ['x', {'__pairs__': [[4, 'q']]}]], ['name', {'__pairs__': [[7, 8], [8, 9]]}], [9, []]]}
PE1 = {'note': 'say "hi" & <b>\nnext', 'list': ['a&b', '<x>'], 'k': 1.5, 'same': 'first line\nsecond line'}
PE2 = {'note': 'say "ho" & <i>\nnext', 'list': ['a&c', '<y>', 'z'], 'k': 2.5, 'same': 'first line\nsecond line'}
XE1 = {'tag': 'r', 'attrib': {'a': 'x"y', 'b': "q'&<"}, 'text': 'a < b & c > d "e"', 'children': [
    {'tag': 'c', 'attrib': {}, 'text': 'line1\nline2', 'children': []}, {'tag': 'keep', 'attrib': {'t': 'x\ny'}, 'text': 'two\nlines', 'children': []}]}
XE2 = {'tag': 'r', 'attrib': {'a': 'x"z', 'c': '&amp;'}, 'text': 'a < b & c > f', 'children': [
    {'tag': 'c', 'attrib': {'n': '1'}, 'text': 'line1\nline3', 'children': []}, {'tag': 'keep', 'attrib': {'t': 'x\ny'}, 'text': 'two\nlines', 'children': []},
    {'tag': 'd', 'attrib': {}, 'text': None, 'children': []}]}
TE1 = [['a"b', 'c,d', 'e\nf'], ['<x>', '&', "'"], ['two\nlines', 'same']]
TE2 = [['a"c', 'c,d', 'e\ng'], ['<y>', '&', ''], ['two\nlines', 'same']]
# control characters (an escape sequence, a bell, a form feed) in unchanged and in changed strings and keys
C1 = {'colour': '\x1b[31mred\x1b[0m', 'bell': 'ding\x07', 'list': ['\x0c', 'plain', 'a\x1fb'], 'k\x01': 'v'}
C2 = {'colour': '\x1b[32mgreen\x1b[0m', 'bell': 'ding\x07', 'list': ['\x0c', 'plane', 'a\x1fb', '\x08'], 'k\x01': 'w'}
TC1 = [['a\x1bb', 'c'], ['\x07', 'd']]
TC2 = [['a\x1bb', 'e'], ['\x07', 'd', '\x0c']]
# elements that gain or lose their text: as the root, as an only child, as one of several children
XT1 = {'tag': 'service', 'attrib': {}, 'text': None, 'children': [{'tag': 'status', 'attrib': {}, 'text': None, 'children': []}]}
XT2 = {'tag': 'service', 'attrib': {}, 'text': None, 'children': [{'tag': 'status', 'attrib': {}, 'text': 'degraded', 'children': []}]}
XT3 = {'tag': 'status', 'attrib': {}, 'text': None, 'children': []}
XT4 = {'tag': 'status', 'attrib': {}, 'text': 'up', 'children': []}
XT5 = {'tag': 'r', 'attrib': {'a': '1'}, 'text': 'gone', 'children': [
    {'tag': 'x', 'attrib': {}, 'text': 'was', 'children': []}, {'tag': 'y', 'attrib': {}, 'text': None, 'children': []}]}
XT6 = {'tag': 'r', 'attrib': {'a': '1'}, 'text': None, 'children': [
    {'tag': 'x', 'attrib': {}, 'text': None, 'children': []}, {'tag': 'y', 'attrib': {}, 'text': 'now', 'children': []}]}
# non-finite and extreme numbers (accepted by every one of these input syntaxes)
_INF, _NAN = float('inf'), float('nan')
N1 = {'x': _NAN, 'y': [_INF, -_INF, 1.5, 1e308, -0.0], 'big': 2 ** 70}
N2 = {'x': _INF, 'y': [_NAN, 1.5, 5e-324], 'z': -_INF, 'big': -2 ** 70}
PN1 = {'x': _NAN, 'y': [_INF, -_INF, 1.5, 1e308, -0.0], 'big': 2 ** 62}
PN2 = {'x': _INF, 'y': [_NAN, 1.5, 5e-324], 'z': -_INF, 'big': -2 ** 62}
# what only a pickle can hold: sets (nested in other containers), ordered dictionaries and class instances (constructor calls)
S1 = {'tags': {'__set__': ['a', 'b']}, 'nested': [{'__fset__': [1, 2]}, {'k': {'__set__': [3]}}], 'plain': 1}
S2 = {'tags': {'__set__': ['a', 'c']}, 'nested': [{'__fset__': [1, 2]}, {'k': {'__set__': [3, 4]}}], 'plain': 2}
O1 = {'od': {'__odict__': [['x', 1], ['y', [1, 2]]]}, 'inst': {'__inst__': {'name': 'n', 'size': 3}}, 'same': {'__odict__': [['q', 'r']]}, 'v': 1}
O2 = {'od': {'__odict__': [['x', 1], ['y', [1, 3]]]}, 'inst': {'__inst__': {'name': 'm', 'size': 3}}, 'same': {'__odict__': [['q', 'r']]}, 'v': 2,
      'new': {'__inst__': {'z': []}}}
FIXED = {
    'json': [(J1, J2), (J3, J4), (E1, E2), (C1, C2), (N1, N2)], 'json5': [(J1, J2), (J3, J4), (E1, E2), (C1, C2), (N1, N2)],
    'yaml': [(J1, J2), (K1, K2), (E1, E2), (C1, C2), (N1, N2)], 'pickle': [(J1, J2), (K1, K2), (E1, E2), (C1, C2), (N1, N2), (S1, S2), (O1, O2)],
    'plist': [(P1, P2), ([1, 'a'], ['a', 1, 2.5]), (PE1, PE2), (PN1, PN2)], 'csv': [(T1, T2), ([['x']], [['x', 'y'], []]), (TE1, TE2), (TC1, TC2)],
    'xml': [(X1, X2), (X3, X4), (XE1, XE2), (XT1, XT2), (XT3, XT4), (XT5, XT6)],
    'html': [(X3, X4), (X1, X2), (XE1, XE2), (XT1, XT2), (XT4, XT3), (XT5, XT6)],
}


def doc_strategy(inp):
    if inp in ('xml', 'html'):
        D = gen.xml_docs(4)
        return st.tuples(D, D)
    if inp == 'csv':
        row = st.lists(st.sampled_from(gen.CELLS), min_size=0, max_size=3)
        T = st.lists(row, max_size=3)
        return st.tuples(T, T)
    esc = st.sampled_from(['"', '\\', 'a\nb', '<&>', "'", 'x"y', '&amp;', '\t', 'é'])
    if inp == 'plist':
        return gen.doc_pairs(8, 3, st.one_of(gen.plist_scalars, esc))
    esc = st.one_of(esc, st.sampled_from(['\x1b[1m', '\x07', 'a\x0cb', '\x7f']))
    if inp in ('yaml', 'pickle'):
        leaf = st.one_of(gen.scalars, esc)
        kk = st.one_of(gen.keys, st.integers(0, 3), st.sampled_from([2.5, True]))
        D = st.recursive(leaf, lambda ch: st.one_of(st.lists(ch, max_size=3), st.dictionaries(kk, ch, max_size=3)), max_leaves=8)
        return st.tuples(D, D).map(lambda t: (encode_pairs(t[0]), encode_pairs(t[1])))
    return gen.doc_pairs(8, 3, st.one_of(gen.scalars, esc))


def all_configs():
    return itertools.product(FORMATS, MODES, STYLES, (False, True), (False, True))


def jobs(tier):
    js = [{'kind': 'fixed', 'shard': s} for s in range(16)]
    if tier != 'quick':
        js += [{'kind': 'gen', 'n': 6, 'shard': s} for s in range(16)]
    return js


def run_job(job, seed, sink):
    if job['kind'] == 'fixed':
        i = 0
        for inp in INPUTS:
            for a, b in FIXED[inp]:
                for fmt, mode, style, j, ident in all_configs():
                    if i % 16 == job['shard']:
                        sink.fast({'input': inp, 'a': a, 'b': b, 'format': fmt, 'mode': mode, 'style': style, 'j': j, 'identical': ident})
                    i += 1
                # the same pair with status output on and real output streams (file descriptors): this is what a terminal or
                # a pipe gets - the Printer then buffers lines and writes them through tqdm.write
                for fmt, mode, style in itertools.product(FORMATS, MODES, (None, '--no-color')):
                    if i % 16 == job['shard']:
                        sink.fast({'input': inp, 'a': a, 'b': b, 'format': fmt, 'mode': mode, 'style': style, 'j': False, 'identical': False,
                                   'status': True})
                    i += 1
        return
    sets = []
    strat = st.sampled_from(INPUTS).flatmap(lambda inp: doc_strategy(inp).map(lambda p: (inp, p[0], p[1])))
    hyp_drive(strat, job['n'], seed, sets.append)
    for inp, a, b in sets:
        for fmt, mode, style, j, ident in all_configs():
            sink.fast({'input': inp, 'a': a, 'b': b, 'format': fmt, 'mode': mode, 'style': style, 'j': j, 'identical': ident})


class Rec:
    """a plain class whose instances are pickled (the pickle file type shows them as constructor calls)"""
    def __init__(self, **kw):
        self.__dict__.update(kw)


def decode_pairs(doc):
    if isinstance(doc, dict):
        if set(doc) == {'__set__'}:
            return set(decode_pairs(x) for x in doc['__set__'])
        if set(doc) == {'__fset__'}:
            return frozenset(decode_pairs(x) for x in doc['__fset__'])
        if set(doc) == {'__odict__'}:
            import collections
            return collections.OrderedDict((k, decode_pairs(v)) for k, v in doc['__odict__'])
        if set(doc) == {'__inst__'}:
            return Rec(**{k: decode_pairs(v) for k, v in doc['__inst__'].items()})
        if set(doc) == {'__pairs__'}:
            out = {}
            for k, v in doc['__pairs__']:
                out[k] = decode_pairs(v)
            return out
        return {k: decode_pairs(v) for k, v in doc.items()}
    if isinstance(doc, list):
        return [decode_pairs(x) for x in doc]
    return doc


def encode_pairs(doc):
    if isinstance(doc, dict):
        if all(isinstance(k, str) for k in doc):
            return {k: encode_pairs(v) for k, v in doc.items()}
        return {'__pairs__': [[k, encode_pairs(v)] for k, v in doc.items()]}
    if isinstance(doc, list):
        return [encode_pairs(x) for x in doc]
    return doc


def serialise(inp, doc):
    doc = decode_pairs(doc)
    if inp in ('json', 'json5'):
        return json.dumps(doc)
    if inp == 'yaml':
        import yaml
        return yaml.safe_dump(doc)
    if inp == 'plist':
        return plistlib.dumps(doc)
    if inp == 'pickle':
        return pickle.dumps(doc)
    if inp == 'csv':
        s = io.StringIO(newline='')
        w = csv.writer(s)
        for r in doc:
            w.writerow(r)
        return s.getvalue()
    if inp in ('xml', 'html'):
        return ET.tostring(gen.to_et(doc))
    raise ValueError(inp)


def valid(case):
    inp = case.get('input')
    if inp not in INPUTS or case.get('format') not in FORMATS or case.get('mode') not in MODES or case.get('style') not in STYLES:
        return False
    try:
        if inp in ('xml', 'html'):
            return gen.valid_case({'family': 'xml', 'a': case['a'], 'b': case['b']})
        if inp == 'csv':
            return gen.valid_case({'family': 'csv', 'a': case['a'] or [['']], 'b': case['b'] or [['']]}) or True
        serialise(inp, case['a'])
        serialise(inp, case['b'])
        return True
    except Exception:
        return False


def check(case):
    out = Outcome()
    inp = case['input']
    try:
        da = serialise(inp, case['a'])
        db = da if case.get('identical') else serialise(inp, case['b'])
    except Exception:
        out.skipped = 'not-serialisable'
        return out
    pa, pb = cli.write_file(da, cli.EXT[inp], name='A'), cli.write_file(db, cli.EXT[inp], name='B')
    args = [pa, pb] if case.get('status') else [pa, pb, '--no-status']
    if case.get('format'):
        args += ['--format', case['format']]
    if case.get('mode', 'full') != 'full':
        args.append(case['mode'])
    if case.get('style'):
        args += case['style'].split()
    if case.get('j'):
        args.append('-j')
    try:
        r = cli.run_main(args, real_streams=bool(case.get('status')))
    finally:
        cli.cleanup_files(pa, pb)
    shown = ' '.join(a for a in args[2:])
    if r.exc is not None:
        out.fail('exception:' + r.exc_key, f"{inp} input, args [{shown}]: {type(r.exc).__name__}: {str(r.exc)[:200]}")
    elif r.rc not in (0, 1):
        out.fail('exit-status-other', f"{inp} input, args [{shown}]: main() ended with {r.rc!r}; stderr: {r.err[-200:]!r}")
    eff = case.get('format') or inp
    out.nontrivial = eff != inp and not case.get('identical')
    out.label('in:' + inp, 'out:' + eff, 'mode:' + case.get('mode', 'full'))
    if case.get('status'):
        out.label('status-on-real-streams')
    out.info = {'rc': r.rc, 'out_len': len(r.out)}
    return out
