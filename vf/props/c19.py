"""C19 - match expressions cannot reach private attributes."""
import builtins
import types

from hypothesis import strategies as st

from .. import common  # noqa: F401
from ..core import Outcome, hyp_drive

import graphtage
from graphtage import expressions
from graphtage import json as gjson

ID = 'C19'
TITLE = 'Match expressions cannot reach private attributes'
LEVEL = 'exploration'
TECHNIQUE = ('grammar-based program generation (member chains, calls, indexing, literals, operators, format-template '
             'productions) plus byte-level mutation and (thorough tier) an atheris / libFuzzer coverage-guided campaign with '
             'the same oracle in the target, evaluated over tripwired sentinel objects and real nodes; exhaustive '
             'name-resolution check over builtins')
RULE = ("Cases are expression strings: grammar-generated (identifiers from the given variables, the documented whitelist "
        "and ~30 non-whitelisted builtins/dunders; member chains over public, _private, __mangled, __dunder__ names and Unicode look-alikes of them (fullwidth low line, fullwidth letters); "
        "calls, indexing, list literals, all operators; string literals that are format templates such as '{0._x}', "
        "'{a.__class__}', '%(k)s'; dedicated productions <template>.format(<sentinel>), str.format(<template>, ..), "
        "<template>.format_map(dict([[k, <sentinel>]])), <template> % <sentinel>, map(str.format, ..); whitelisted callables given an iterable of environment objects and a string naming a member path such as 'child._x') and byte-level "
        "mutants of them (insert/delete/swap/replace characters). Environments: tripwire sentinels whose "
        "__getattribute__ records every read and whose planted private attributes hold secret markers (secrets live in "
        "attributes only, never in items or repr), and real graphtage nodes / to_obj() values with a planted private "
        "attribute, as MatchIf / MatchUnless supply them. One expression in three is first evaluated once with a wider globals= mapping (getattr, vars, dir, type, ... exposed by that caller; reads during that evaluation are not judged) and then judged under the default whitelist on the same parsed Expression object. Oracle: (R1) no read of a planted private name or __dict__ on "
        "any sentinel or node; (R2) no secret marker in the result, its repr or the exception text; (R3) the result "
        "contains no sentinel class, module, frame, code object or dunder-named bound method; (R4, exhaustive) every "
        "name in dir(builtins) and the module's globals outside the 35 documented names raises KeyError, every "
        "documented name resolves to the identical builtin, DEFAULT_GLOBALS is exactly the documented set. Any other "
        "exception (ParseError, TypeError, ...) is a clean rejection. Non-trivial: the expression parses, reads an "
        "attribute of or calls a sentinel, and mentions a private name. Distinct by expression string.")
ASSUMPTIONS = [
    "CPython's own implicit special-method lookups (isinstance reading __class__, str()/repr() calling __str__/__repr__) are not attribute reads by the expression; real dunders other than __dict__ are covered by R2/R3 instead of R1",
    "the object graph reachable from an expression cannot be enumerated; the routes a grammar + mutation reach are covered, with tripwires making any successful route visible",
]
MANIFEST_TEXT = ("Program generation against tripwired environments: any route by which an expression reads an "
                 "underscore attribute or obtains its value is made observable (recorded read, secret marker, forbidden "
                 "object kind); name resolution is checked exhaustively over builtins. Sampled over expression space.")
MANIFEST_NOTE = "Trusts the sentinel's __getattribute__ tripwire and the secret-marker scan of results and exception texts."
DESIGN_REF = 'DESIGN.md section 3, C19'
SHRINK = {'strings': ['expr'], 'enums': {'wider_first': False}}
SHRINK_BUDGET = {'quick': 400, 'thorough': 2000}

SECRET = 'S3CR3T-7f3a'
PLANTED = {'_x', '__hidden', '_Sentinel__m', '__priv__', '__dict__', '_vf_secret'}
READS = []
TOUCHED = [0]


class Sentinel:
    def __init__(self, depth=0):
        d = object.__getattribute__(self, '__dict__')
        d['pub'] = 1
        d['name'] = 'n'
        d['_x'] = SECRET
        d['__hidden'] = SECRET + 'h'
        d['_Sentinel__m'] = SECRET + 'm'
        d['__priv__'] = SECRET + 'd'
        d['child'] = Sentinel(depth + 1) if depth < 2 else None
        d['items'] = [1, 'a']
        d['data'] = {'k': 'v'}

    def __getattribute__(self, name):
        TOUCHED[0] += 1
        if name in PLANTED:
            READS.append(name)
        return object.__getattribute__(self, name)

    def meth(self, *a):
        TOUCHED[0] += 1
        return 5

    def __repr__(self):
        return 'Sent'

    def __str__(self):
        return 'Sent'

    def __format__(self, spec):
        return 'Sent'


# tripwire on real nodes: graphtage itself never reads `_vf_secret`, so any read comes from the expression
_orig_ga = graphtage.tree.TreeNode.__getattribute__


def _node_ga(self, name):
    if name == '_vf_secret':
        READS.append(name)
    return _orig_ga(self, name)


graphtage.tree.TreeNode.__getattribute__ = _node_ga

DOCUMENTED = ['str', 'bool', 'int', 'bytes', 'float', 'bytearray', 'dict', 'set', 'frozenset', 'enumerate', 'zip', 'map',
              'filter', 'any', 'all', 'chr', 'ord', 'abs', 'ascii', 'bin', 'complex', 'hash', 'hex', 'oct', 'min', 'max', 'id',
              'iter', 'len', 'list', 'slice', 'sorted', 'sum', 'tuple', 'round']
PRIV = ['_x', '__hidden', '_Sentinel__m', '__priv__', '__dict__', '__class__', '__init__', '__globals__', '__getattribute__',
        '__doc__', '__module__', '_vf_secret', '_parent', '_children', '__subclasses__', '__mro__', '__bases__']
# names that only *become* private / forbidden under Unicode normalisation (fullwidth and wavy low lines, fullwidth letters)
LOOKALIKE = ['＿x', '﹏x', '＿_hidden', '＿vf_secret', '＿_dict__', '︳x', 'ｆormat', 'format＿map', '＿Sentinel__m']
PUB = ['pub', 'name', 'child', 'items', 'data', 'meth', 'format', 'format_map', 'join', 'keys', 'values', 'get', 'real', 'upper',
       'object', 'key', 'value', 'parent', 'children', 'to_obj', 'tag', 'attrib', 'text', 'mro', 'fromkeys', 'maketrans', 'translate']
BADN = ['getattr', 'eval', 'exec', 'open', 'type', 'vars', 'dir', 'globals', 'locals', '__import__', 'object', 'isinstance',
        'print', 'setattr', 'super', 'repr', 'format', 'range', 'next', 'reversed', 'callable', 'compile', 'memoryview',
        'classmethod', 'property', '__builtins__', 'expressions', 'DEFAULT_GLOBALS', 'delattr', 'hasattr', 'staticmethod']
TEMPLATES = ["'{0._x}'", "'{0.__dict__}'", "'{0.child._x}'", "'{a._x}'", "'{0[_x]}'", "'%s'", "'%(k)s'", "'{0.__class__}'",
             "'{0!r}'", "'_x'", "'k'", "'{}'", "'{0._vf_secret}'", "'{0.__hidden}'", "'{0.__class__.__init__.__globals__}'",
             "'{a.__priv__}'", "'{0.child.child._Sentinel__m}'", "'{0.pub}'", "'{0.name}'"]
# names a more permissive caller might expose through globals= (side-effect free ones only)
WIDER = {n: getattr(builtins, n) for n in ('getattr', 'vars', 'dir', 'type', 'repr', 'isinstance', 'hasattr', 'callable', 'reversed',
                                            'range', 'next', 'format')}
SENT = ['obj', 'from', 'obj.child', 'to["k"]', 'to["a"]', 'from.child.child', 'node', 'nobj', 'xobj', 'node.parent']


def grammar():
    ident = st.one_of(st.sampled_from(['obj', 'from', 'to', 'node', 'nobj', 'xobj']), st.sampled_from(DOCUMENTED), st.sampled_from(BADN))
    lit = st.one_of(st.integers(0, 3).map(str), st.sampled_from(TEMPLATES), st.just('1.5'), st.sampled_from(['"a"', "'k'", '""']))
    sent = st.sampled_from(SENT)
    tmpl = st.sampled_from(TEMPLATES)
    fmt = st.one_of(
        st.builds(lambda t, a: f"{t}.format({', '.join(a)})", tmpl, st.lists(sent, min_size=1, max_size=2)),
        st.builds(lambda t, a: f"str.format({t}, {a})", tmpl, sent),
        st.builds(lambda t, a: f"{t}.format_map(dict([['a', {a}]]))", tmpl, sent),
        st.builds(lambda t, a: f"{t}.format_map(to)", tmpl, sent),
        st.builds(lambda t, a: f"{t} % {a}", tmpl, sent),
        st.builds(lambda t, a: f"list(map(str.format, [{t}], [{a}]))", tmpl, sent),
        st.builds(lambda t, a: f"{t}.format(a={a})", tmpl, sent),
        st.builds(lambda a, n: f"{a}.{n}", sent, st.sampled_from(PRIV + LOOKALIKE)),
        st.builds(lambda t, a: f"{t}.ｆormat({a})", tmpl, sent),
        st.builds(lambda a, n, form: form.format(x=a, n=n), sent, st.sampled_from(PRIV),
                  st.sampled_from(['{x}.({n})', '{x}. ({n})', '{x}.(({n}))', '{x} . {n}', '({x}).{n}', '{x}.[{n}]', "{x}.'{n}'"])),
    )

    # well-formed expressions over public members that evaluate successfully and carry a private name only as data
    pubval = st.sampled_from(['obj.pub', 'obj.name', 'from.child.name', 'obj.meth()', 'len(obj.items)', 'obj.items[1]',
                              "obj.data['k']", "to['k'].pub", "to['a'].child.pub", 'str(obj)', 'str(from.child)', "'%s' % obj",
                              "node.to_obj()['name']", "nobj['k'][1]", 'xobj.tag', "xobj.attrib['a']", 'len(node.children())',
                              'sorted(nobj.keys())', 'str(node.parent)', 'obj.child.child.name', 'list(map(str, [obj, from]))'])
    privlit = st.sampled_from(["'_x'", "'__dict__'", "'{0._x}'", "'_vf_secret'", "'{a.__priv__}'", "'__class__'"])
    benign = st.one_of(
        st.builds(lambda a, b: f"[{a}, {b}]", pubval, privlit),
        st.builds(lambda a, b: f"{b} in str({a})", pubval, privlit),
        st.builds(lambda a, b: f"{a} == {b}", pubval, privlit),
        st.builds(lambda a, b: f"str({a}) + {b}", pubval, privlit),
        st.builds(lambda a, b: f"{b} % [{a}]", pubval, st.sampled_from(["'%s _x'", "'_x:%r'"])),
        st.builds(lambda a, b: f"dict([[{b}, {a}]])", pubval, privlit),
        st.builds(lambda b: f"{b} in obj.data", privlit),
        st.builds(lambda a, b: f"({a}, {b})[0]", pubval, privlit),
    )

    # whitelisted callables given an iterable of environment objects plus a *string naming a member path* (key functions and
    # the like are spelled this way in many libraries): no argument convention may turn such a string into attribute reads
    paths = st.sampled_from(["'child._x'", "'_x'", "'pub._x'", "'child.child._Sentinel__m'", "'child.__dict__'", "'parent._vf_secret'",
                             "'name.__class__'", "'data._x'", "'child.__hidden'", "'_vf_secret'", "'pub'", "'child.pub'"])
    iters = st.sampled_from(['[obj, from]', '[obj.child, obj]', 'node.children()', '[node, node.parent]', 'to.values()', '[xobj]',
                             '(obj, from.child)', '[to["k"], to["a"]]'])
    # string literals in member position that are themselves format templates over names an error message might bind
    msgt = st.sampled_from(["'{obj._x}'", "'{member._x}'", "'{self._x}'", "'{obj.__dict__}'", "'{obj.child._x}'", "'{0._x}'", "'{value._vf_secret}'",
                            "'{node._vf_secret}'", "'{obj._Sentinel__m}'", "'{name}'", "'{obj}'", "'{obj.pub}'"])
    memtmpl = st.one_of(
        st.builds(lambda x, t: f"{x}.{t}", sent, msgt),
        st.builds(lambda x, t: f"{x}[{t}]", sent, msgt),
        st.builds(lambda x, t: f"{x}.({t})", sent, msgt),
        st.builds(lambda f, t: f"{f}({t})", st.sampled_from(DOCUMENTED + BADN[:8]), msgt),
    )
    fn = st.one_of(st.sampled_from(['sorted', 'min', 'max', 'map', 'filter', 'sum', 'any', 'all', 'list', 'set', 'dict', 'zip', 'enumerate']),
                   st.sampled_from(DOCUMENTED))
    # functions outside the whitelist applied to environment objects the way an attacker would: they must not resolve
    priv = st.sampled_from(["'_x'", "'__dict__'", "'_vf_secret'", "'__hidden'", "'_Sentinel__m'", "'__priv__'"])
    badcall = st.one_of(
        st.builds(lambda x, p: f"{x}[{p}]", sent, priv),                 # item access spelled with a private member's name
        st.builds(lambda x, p: f"{x}[{p}]", sent, priv),
        st.builds(lambda x, p: f"{x}.get({p})", sent, priv),
        st.builds(lambda x, p: f"getattr({x}, {p})", sent, priv),
        st.builds(lambda x, p: f"vars({x})[{p}]", sent, priv),
        st.builds(lambda x: f"vars({x})", sent),
        st.builds(lambda x, p: f"{p} in dir({x})", sent, priv),
        st.builds(lambda x, p: f"getattr({x}, {p}, 0)", sent, priv),
        st.builds(lambda x, p: f"hasattr({x}, {p})", sent, priv),
        st.builds(lambda x, p: f"type({x}).__getattribute__({x}, {p})", sent, priv),
        st.builds(lambda x, p: f"format({x}, {p})", sent, priv),
    )
    pathcall = st.one_of(
        badcall,
        st.builds(lambda f, it, p: f"{f}({it}, {p})", fn, iters, paths),
        st.builds(lambda f, it, p, x: f"{f}({it}, {p}, {x})", fn, iters, paths, st.sampled_from(['True', '0', "'k'", 'obj'])),
        st.builds(lambda f, it, p: f"{f}({p}, {it})", fn, iters, paths),
        st.builds(lambda f, it, p: f"list({f}({p}, {it}))", st.sampled_from(['map', 'filter', 'zip', 'enumerate']), iters, paths),
    )

    def member(e):
        # also odd spellings of the member name: parenthesised, spaced, bracketed
        return st.builds(lambda x, n, form: form.format(x=x, n=n), e, st.sampled_from(PRIV + PUB + LOOKALIKE),
                         st.sampled_from(['{x}.{n}', '{x}.{n}', '{x}.{n}', '{x}.({n})', '{x}. ({n})', '{x}.(({n}))', '{x} . {n}',
                                          '({x}).{n}', '{x}.[{n}]', "{x}.'{n}'", '{x}..{n}']))

    def call(e):
        return st.builds(lambda f, args: f"{f}({', '.join(args)})", e, st.lists(e, max_size=3))

    def index(e):
        return st.builds(lambda x, i: f"{x}[{i}]", e, e)

    def lst(e):
        return st.builds(lambda xs: '[' + ', '.join(xs) + ']', st.lists(e, max_size=3))

    def binop(e):
        return st.builds(lambda a, o, b: f"{a} {o} {b}", e,
                         st.sampled_from(['+', '-', '*', '%', '==', '!=', '<', 'in', 'and', 'or', '|', '&', '?', ':', '//', '<<']), e)

    def paren(e):
        return e.map(lambda x: f"({x})")

    return st.recursive(st.one_of(ident, lit, sent, fmt, fmt, benign, pubval, pathcall, pathcall, memtmpl),
                        lambda e: st.one_of(member(e), member(e), call(e), call(e), index(e), lst(e), binop(e), paren(e)),
                        max_leaves=8)


@st.composite
def mutated(draw):
    s = draw(grammar())
    n = draw(st.integers(1, 3))
    chars = " ._-'\"()[]{}%,:abcx0_"
    for _ in range(n):
        if not s:
            break
        i = draw(st.integers(0, len(s) - 1))
        op = draw(st.integers(0, 3))
        c = draw(st.sampled_from(list(chars)))
        if op == 0:
            s = s[:i] + c + s[i:]
        elif op == 1:
            s = s[:i] + s[i + 1:]
        elif op == 2 and i + 1 < len(s):
            s = s[:i] + s[i + 1] + s[i] + s[i + 2:]
        else:
            s = s[:i] + c + s[i + 1:]
    return s


def jobs(tier):
    n = 1000 if tier == 'quick' else 40000
    js = []
    for s in range(16):
        js.append({'kind': 'grammar', 'n': n, 'shard': s})
        js.append({'kind': 'mutated', 'n': n // 4, 'shard': s})
    js.append({'kind': 'names'})
    if tier != 'quick':
        for s in range(8):
            js.append({'kind': 'atheris', 'runs': 250000, 'shard': s})
    return js


def run_job(job, seed, sink):
    if job['kind'] == 'names':
        names = sorted(set(dir(builtins)) | set(vars(expressions)) | set(DOCUMENTED))
        for nm in names:
            sink({'expr': nm, 'names_check': True})
        sink({'expr': '', 'whitelist_check': True})
        return
    if job['kind'] == 'atheris':
        return run_atheris(job, seed, sink)
    strat = grammar() if job['kind'] == 'grammar' else mutated()
    n = [0]

    def mk(s):
        n[0] += 1
        return {'expr': s, 'wider_first': True} if n[0] % 3 == 0 else {'expr': s}
    hyp_drive(strat.map(mk), job['n'], seed, sink)


def run_atheris(job, seed, sink):
    """Coverage-guided supplement (libFuzzer via atheris) in a child process, seeded from the grammar and from empty;
    every input it reports is re-checked here through the normal path, so replay files do not depend on atheris."""
    import json
    import os
    import subprocess
    import sys
    from ..core import REPO, VERIF, scratch_dir
    d = os.path.join(scratch_dir(), f"atheris{job['shard']}")
    corpus = os.path.join(d, 'corpus')
    os.makedirs(corpus, exist_ok=True)
    if job['shard'] % 2 == 0:           # odd shards start from an empty corpus
        seeds = []
        hyp_drive(grammar(), 150, seed, seeds.append)
        for i, s in enumerate(seeds):
            with open(os.path.join(corpus, f's{i}'), 'w', encoding='utf-8') as f:
                f.write(s)
    outp = os.path.join(d, 'out.json')
    env = dict(os.environ)
    env['PYTHONPATH'] = os.pathsep.join([REPO, VERIF, os.path.join(VERIF, '.deps')])
    try:
        subprocess.run([sys.executable, '-m', 'vf.fuzz_c19', outp, corpus, str(job['runs']), str(seed % 2 ** 31)], env=env, cwd=VERIF,
                       stdout=subprocess.DEVNULL, stderr=subprocess.DEVNULL, timeout=3000)
    except Exception:
        pass
    res = {'found': {}, 'stats': {'execs': 0, 'parsed_ok': 0}}
    if os.path.exists(outp):
        with open(outp) as f:
            res = json.load(f)
    sink({'expr': '', 'fuzz_stats': res['stats']})
    for key, ent in res['found'].items():
        sink({'expr': ent['expr']})


def valid(case):
    return isinstance(case.get('expr'), str)


def make_env():
    node = gjson.build_tree({'k': [1, 'a'], 'name': 'v'})
    node._vf_secret = SECRET + 'n'
    for c in node.children():
        c._vf_secret = SECRET + 'c'
    from graphtage.xml import XMLElementObj
    xobj = XMLElementObj('t', {'a': 'b'}, 'text', ())
    xobj._vf_secret = SECRET + 'x'
    return {'obj': Sentinel(), 'from': Sentinel(), 'to': {'k': Sentinel(), 'a': Sentinel()}, 'node': node,
            'nobj': node.to_obj(), 'xobj': xobj}


def contains_secret(v, depth=0):
    try:
        if depth > 4:
            return False
        if isinstance(v, str):
            return SECRET in v
        if isinstance(v, bytes):
            return SECRET.encode() in v
        if isinstance(v, (list, tuple, set, frozenset)):
            return any(contains_secret(x, depth + 1) for x in v)
        if isinstance(v, dict):
            return any(contains_secret(k, depth + 1) or contains_secret(x, depth + 1) for k, x in v.items())
        if isinstance(v, (int, float, bool, type(None), Sentinel)):
            return False
        return SECRET in repr(v)
    except Exception:
        return False


def forbidden_kind(v, depth=0):
    if depth > 3:
        return None
    if v is Sentinel:
        return 'sentinel-class'
    if isinstance(v, types.ModuleType):
        return 'module'
    if isinstance(v, types.FrameType):
        return 'frame'
    if isinstance(v, types.CodeType):
        return 'code-object'
    if isinstance(v, (types.MethodType, types.BuiltinMethodType, types.MethodWrapperType)):
        nm = getattr(v, '__name__', '')
        owner = getattr(v, '__self__', None)
        if nm.startswith('__') and isinstance(owner, (Sentinel, graphtage.tree.TreeNode)):
            return 'dunder-bound-method'
    if isinstance(v, (list, tuple, set, frozenset)):
        for x in v:
            k = forbidden_kind(x, depth + 1)
            if k:
                return k
    if isinstance(v, dict):
        for x in v.values():
            k = forbidden_kind(x, depth + 1)
            if k:
                return k
    return None


def mentions_private(s):
    import re
    return bool(re.search(r'(?<![A-Za-z0-9])_[A-Za-z_]', s))


def check(case):
    out = Outcome()
    s = case['expr']
    if case.get('fuzz_stats') is not None:
        st_ = case['fuzz_stats']
        out.label(f"atheris-shard:execs={st_.get('execs', 0)},evaluated={st_.get('parsed_ok', 0)}")
        if not st_.get('execs'):
            out.skipped = 'atheris-unavailable'
        return out
    if case.get('whitelist_check'):
        got = set(expressions.DEFAULT_GLOBALS)
        if got != set(DOCUMENTED):
            out.fail('whitelist-changed', f"DEFAULT_GLOBALS has extra {sorted(got - set(DOCUMENTED))} / lacks {sorted(set(DOCUMENTED) - got)}")
        out.nontrivial = True
        return out
    if case.get('names_check'):
        out.nontrivial = True
        out.label('names-check')
        try:
            v = expressions.parse(s).eval(locals={})
        except KeyError:
            # the property bounds what *can* be resolved; it does not promise that every documented name tokenizes
            # (e.g. `int` is read as the operator `in` followed by `t`), so this is only counted
            if s in DOCUMENTED:
                out.label('documented-name-not-resolvable')
            return out
        except Exception:
            return out          # not an identifier for the tokenizer, or another clean rejection
        if s in DOCUMENTED:
            if v is not getattr(builtins, s):
                out.fail('documented-name-wrong-object', f"{s} resolves to {v!r}, not the builtin")
        elif s.isidentifier() and s not in ('True', 'False', 'None') and (hasattr(builtins, s) or s in vars(expressions)):
            target = getattr(builtins, s, vars(expressions).get(s))
            if v is target:
                out.fail('name-resolves-outside-whitelist', f"the bare name {s} resolves to {v!r}")
        return out
    del READS[:]
    TOUCHED[0] = 0
    env = make_env()
    del READS[:]
    TOUCHED[0] = 0
    res = err = None
    parsed = True
    try:
        e = expressions.parse(s)
    except RecursionError:
        out.skipped = 'recursion-limit-in-parser'
        return out
    except BaseException as ex:       # noqa: B902 - any parse failure is a clean rejection
        parsed = False
        err = ex
    if parsed and case.get('wider_first'):
        # the same parsed expression is first evaluated by a caller who chose to expose more names; whatever that caller allowed,
        # a later evaluation under the default whitelist must not inherit it
        out.label('after-eval-with-wider-globals')
        try:
            e.eval(locals=make_env(), globals={**expressions.DEFAULT_GLOBALS, **WIDER})
        except RecursionError:
            pass
        except BaseException:     # noqa: B902
            pass
        del READS[:]
        TOUCHED[0] = 0
    if parsed:
        try:
            res = e.eval(locals=env)
        except RecursionError:
            err = None
        except BaseException as ex:   # noqa: B902 - clean rejection unless it leaks (R2)
            err = ex
    # rendering the error is part of what a caller sees (MatchIf / MatchUnless log it): it must not read anything either
    err_text = ''
    if err is not None:
        try:
            err_text = str(err) + ' ' + repr(err)
        except Exception:
            err_text = ''
    reads = sorted(set(READS))
    touched = TOUCHED[0]
    del READS[:]
    if reads:
        kind = 'dunder-dict' if reads == ['__dict__'] else 'planted-private'
        out.fail(f'private-attribute-read:{kind}', f"expression {s!r} read {reads} from an environment object")
    if res is not None and contains_secret(res):
        out.fail('secret-in-result', f"expression {s!r} evaluates to {repr(res)[:120]}")
    if err is not None:
        txt = err_text
        if SECRET in txt:
            out.fail('secret-in-exception', f"expression {s!r} raised {type(err).__name__}: {txt[:120]}")
    fk = forbidden_kind(res)
    if fk:
        out.fail(f'forbidden-object-in-result:{fk}', f"expression {s!r} evaluates to {repr(res)[:120]}")
    ok = parsed and err is None
    out.nontrivial = ok and touched > 0 and mentions_private(s)
    out.label('parsed' if parsed else 'parse-rejected', 'evaluated' if ok else 'rejected')
    if '.format' in s or '%' in s:
        out.label('template-method')
    if touched:
        out.label('touched-sentinel')
    out.info = {'ok': ok, 'sentinel_reads': touched}
    return out
