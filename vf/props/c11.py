"""C11 - string changes are minimal: kept characters form a longest common subsequence."""
import itertools

from hypothesis import strategies as st

from .. import common
from ..core import Outcome, guard, hyp_drive
from ..render import classify_string_render

import graphtage
from graphtage import Insert, Match, Remove, StringNode
from graphtage.graphtage import StringEdit

ID = 'C11'
TITLE = 'String changes are minimal'
LEVEL = 'exploration'
RULE = ("exhaustive: every ordered pair of strings over {a,b} up to length 5 (quick) / 7 (thorough), over {a,b,c} "
        "up to length 3 / 5 and over the non-ASCII alphabet {é,日} up to length 4 / 6; sampled: Hypothesis text over 2-4 letter ASCII and non-ASCII (accented, Greek, Cyrillic, CJK, astral) alphabets up to length 40 built as "
        "prefix+middle+suffix with shared affixes and repeated runs, plus a few 100-400 character pairs with little in common (running costs beyond 255). Oracle: reference LCS by dynamic programming; the "
        "script's from-side must spell a, its to-side b, kept characters are pairwise equal and their number equals "
        "LCS(a,b) (so removed=len(a)-LCS, inserted=len(b)-LCS), the same counts are read back from the ANSI rendering. "
        "A blocks family builds 30-110 character strings from a few repeating blocks (the longest common block also occurs elsewhere). Four batches (60 / 600 pairs each plus all pairs over {a,b} up to length 3) are judged by the same oracle inside a child interpreter started with python -O (assertions stripped). A sampled case may set the process-wide default printer to quiet (what --quiet selects) and may be preceded, in the same process, by one to three other string comparisons sharing its target, its source or neither (lengths 3-120); {a,b} up to length 4 / 6 is enumerated again under the quiet printer. "
        "Non-trivial: 0 < LCS < min(len a, len b). Distinct by (a,b,flags).")
ASSUMPTIONS = [
    "the 1-char/1-char special case (a single Match of cost 1) counts as one removed plus one inserted character",
    "beyond 40 characters only one family is explored: 100-400 character strings with little in common (48 pairs quick / 640 thorough)",
]
SHRINK = {'strings': ['a', 'b'], 'lists': ['before'], 'enums': {'quiet': False}}
TECHNIQUE = ('exhaustive enumeration over small alphabets + Hypothesis sampling (repeating blocks, comparison histories, quiet '
             'printer), against a reference LCS dynamic programme; the same oracle re-run in a python -O child interpreter')
MANIFEST_TEXT = ("Exhaustive comparison with an independent LCS reference for every pair of strings over {a,b} up to length 5/7 "
                 "and {a,b,c} up to 3/5, plus sampled longer strings with shared affixes and runs; both the edit script and "
                 "the rendered text are measured. Exploration, not proof: longer strings and larger alphabets are sampled only.")
MANIFEST_NOTE = "Trusts the harness's 12-line LCS dynamic programme and the ANSI/combining-mark classifier in vf/render.py."
DESIGN_REF = 'DESIGN.md section 3, C11'


def EXHAUSTIVE(tier):
    return True


def coverage_extra(tier):
    la, lb, lc = ((5, 3, 4) if tier == 'quick' else (7, 5, 6))
    return {'explanation': f"exhaustive part: all ordered pairs over {{a,b}} with lengths <= {la}, over {{a,b,c}} with "
                           f"lengths <= {lb} and over {{é,日}} with lengths <= {lc}; the sampled part (longer strings) is not exhaustive"}


def lcs(a, b):
    dp = [[0] * (len(b) + 1) for _ in range(len(a) + 1)]
    for i in range(len(a)):
        for j in range(len(b)):
            dp[i + 1][j + 1] = dp[i][j] + 1 if a[i] == b[j] else max(dp[i][j + 1], dp[i + 1][j])
    return dp[-1][-1]


def all_strings(alpha, maxlen):
    for n in range(maxlen + 1):
        for t in itertools.product(alpha, repeat=n):
            yield ''.join(t)


NSHARDS = 16


def jobs(tier):
    if tier == 'quick':
        en = [('ab', 5), ('abc', 3), ('é日', 4), ('K\u212a', 3)]
        samp = 60
    else:
        en = [('ab', 7), ('abc', 5), ('é日', 6), ('aé😀', 4), ('K\u212a', 5), ('\u03a9\u2126a', 4)]
        samp = 1500
    js = []
    for alpha, ml in en:
        for s in range(NSHARDS):
            js.append({'kind': 'enum', 'alpha': alpha, 'maxlen': ml, 'shard': s})
    # the same oracle in a child interpreter started with -O (assertions stripped): 4 batches
    for s in range(4):
        js.append({'kind': 'optimized', 'n': 60 if tier == 'quick' else 600, 'shard': s})
    for s in range(NSHARDS):
        js.append({'kind': 'sample', 'n': samp, 'shard': s})
        js.append({'kind': 'long', 'n': 3 if tier == 'quick' else 40, 'shard': s})
        js.append({'kind': 'history', 'n': 6 if tier == 'quick' else 120, 'shard': s})
        js.append({'kind': 'blocks', 'n': 12 if tier == 'quick' else 250, 'shard': s})
        # the same exhaustive space under the quiet printer (what --quiet / a non-terminal run selects)
        js.append({'kind': 'enum', 'alpha': 'ab', 'maxlen': 4 if tier == 'quick' else 6, 'shard': s, 'quiet': True})
    return js


@st.composite
def sampled_pairs(draw):
    alpha = draw(st.sampled_from(['ab', 'abc', 'abcd', 'aab', 'éè', 'αβγ', '日本語', 'a😀é', 'привет мир',
                                  # different code points that Unicode normalisation maps to one character (KELVIN SIGN / K, OHM SIGN /
                                  # GREEK OMEGA, ANGSTROM SIGN / A WITH RING, e + COMBINING ACUTE / é, fullwidth A): different characters
                                  'K\u212a', '\u03a9\u2126a', '\u00c5\u212bA', 'e\u0301\u00e9', 'A\uff21a', '\u212aK 273']))
    t = st.text(alphabet=alpha, max_size=12)
    run = st.builds(lambda c, n: c * n, st.sampled_from(list(alpha)), st.integers(0, 6))
    piece = st.one_of(t, run)
    pre, suf = draw(piece), draw(piece)
    ma, mb = draw(piece), draw(piece)
    kind = draw(st.integers(0, 3))
    if kind == 0:
        a, b = pre + ma + suf, pre + mb + suf
    elif kind == 1:
        a, b = pre + ma, pre + mb + suf
    elif kind == 2:
        a, b = ma + suf, pre + mb
    else:
        a, b = draw(st.text(alphabet=alpha, max_size=40)), draw(st.text(alphabet=alpha, max_size=40))
    return {'a': a[:40], 'b': b[:40], 'quiet': draw(st.booleans())}


def _edit_string(draw, s, alpha, k):
    cs = list(s)
    for _ in range(k):
        op = draw(st.integers(0, 2))
        pos = draw(st.integers(0, max(0, len(cs) - 1)))
        if op == 0 and cs:
            del cs[pos]
        elif op == 1:
            cs.insert(pos, draw(st.sampled_from(list(alpha))))
        elif cs:
            cs[pos] = draw(st.sampled_from(list(alpha)))
    return ''.join(cs)


@st.composite
def history_pairs(draw):
    """(a, b) compared after other string comparisons in the same process that share its target, its source or neither;
    lengths 3-120 so that both sides of any size threshold are met."""
    alpha = draw(st.sampled_from(['ab', 'abcd', 'abcdefgh']))
    n = draw(st.sampled_from([3, 8, 20, 64, 70, 100, 120]))
    b = draw(st.text(alphabet=alpha, min_size=n, max_size=n))
    a = _edit_string(draw, b, alpha, draw(st.integers(1, 6)))
    before = []
    for _ in range(draw(st.integers(1, 3))):
        kind = draw(st.integers(0, 3))
        other = _edit_string(draw, b, alpha, draw(st.integers(1, 12)))
        if kind == 0:
            before.append([other, b])       # same target
        elif kind == 1:
            before.append([a, other])       # same source
        elif kind == 2:
            before.append([b, a])           # the reverse comparison
        else:
            before.append([other, _edit_string(draw, other, alpha, 3)])
    return {'a': a, 'b': b, 'before': before, 'quiet': draw(st.booleans())}


@st.composite
def block_pairs(draw):
    """30-100 character strings assembled from a few blocks that repeat: the longest common block also occurs elsewhere, so
    anchoring on it (or on any greedy choice) is not necessarily part of a minimal script"""
    alpha = draw(st.sampled_from(['abcdefgh', 'helo wrd,;:', 'ab']))
    blk = st.text(alphabet=alpha, min_size=6, max_size=22)
    B, X, Y = draw(blk), draw(st.text(alphabet=alpha, min_size=4, max_size=14)), draw(st.text(alphabet=alpha, min_size=0, max_size=8))
    X2 = _edit_string(draw, X, alpha, draw(st.integers(1, 3)))
    parts = {'B': B, 'X': X, 'x': X2, 'Y': Y}
    shapes = [('XB', 'BxB'), ('BXB', 'xB'), ('BYB', 'BB'), ('XBY', 'BxBY'), ('BXBY', 'YBxB'), ('BB', 'BXB'), ('XBXB', 'BxBx')]
    sa, sb = draw(st.sampled_from(shapes))
    a, b = ''.join(parts[c] for c in sa), ''.join(parts[c] for c in sb)
    if draw(st.booleans()):
        a, b = b, a
    return {'a': a[:110], 'b': b[:110]}


@st.composite
def long_pairs(draw):
    """strings of 100-260 characters with little in common (no shared prefix/suffix to trim), so that running costs pass
    255, 511, ... inside the matrix"""
    n1, n2 = draw(st.integers(60, 130)), draw(st.integers(60, 130))
    core = draw(st.text(alphabet='QRS', min_size=1, max_size=3))
    t1, t2 = draw(st.integers(0, 4)), draw(st.integers(0, 4))
    a = 'a' * n1 + core + 'c' * t1
    b = 'b' * n2 + core + 'd' * t2
    if draw(st.booleans()):
        a, b = b, a
    if draw(st.integers(0, 3)) == 0:
        a = a + 'x' * draw(st.integers(100, 140))       # one side beyond 255 characters
    return {'a': a, 'b': b}


def run_job(job, seed, sink):
    if job['kind'] == 'long':
        hyp_drive(long_pairs(), job['n'], seed, sink)
        return
    if job['kind'] == 'history':
        hyp_drive(history_pairs(), job['n'], seed, sink)
        return
    if job['kind'] == 'blocks':
        hyp_drive(block_pairs(), job['n'], seed, sink)
        return
    if job['kind'] == 'optimized':
        return run_optimized(job, seed, sink)
    if job['kind'] == 'enum':
        i = 0
        for a in all_strings(job['alpha'], job['maxlen']):
            for b in all_strings(job['alpha'], job['maxlen']):
                if i % NSHARDS == job['shard']:
                    sink({'a': a, 'b': b, 'quiet': True} if job.get('quiet') else {'a': a, 'b': b})
                i += 1
    else:
        hyp_drive(sampled_pairs(), job['n'], seed, sink)


def run_optimized(job, seed, sink):
    """A batch of pairs is judged by this module's own check() inside `python -O` (assertions stripped, __debug__ False); the
    batch comes back as one case per pair, carrying the child's verdict."""
    import json
    import os
    import subprocess
    import sys
    from ..core import REPO, VERIF, scratch_dir
    batch = []
    hyp_drive(sampled_pairs(), job['n'], seed, lambda c: batch.append({'a': c['a'][:14], 'b': c['b'][:14]}))
    batch += [{'a': x, 'b': y} for x in all_strings('ab', 3) for y in all_strings('ab', 3)][job['shard']::4]
    path = os.path.join(scratch_dir(), f"c11opt{job['shard']}.json")
    with open(path, 'w') as f:
        json.dump(batch, f)
    env = dict(os.environ)
    env['PYTHONPATH'] = os.pathsep.join([REPO, VERIF, os.path.join(VERIF, '.deps')])
    env.pop('PYTHONOPTIMIZE', None)
    try:
        p = subprocess.run([sys.executable, '-O', '-m', 'vf.c11child', path], env=env, cwd=VERIF, capture_output=True, timeout=900)
        res = json.loads(p.stdout.decode('utf-8'))
    except Exception as e:
        sink({'a': '', 'b': '', 'child_error': f"{type(e).__name__}: {str(e)[:120]}"})
        return
    finally:
        try:
            os.unlink(path)
        except OSError:
            pass
    if res.get('optimize', 0) < 1:
        sink({'a': '', 'b': '', 'child_error': 'child did not run with -O'})
        return
    for case, fails in zip(batch, res['results']):
        sink(dict(case, under_O=fails))


def script_counts(a, b):
    """(kept, removed, inserted, cost, from_spelled, to_spelled) read off the edit script."""
    with guard('StringNode.edits'):
        e = StringNode(a).edits(StringNode(b))
        common.full_tighten(e)
        cost = e.bounds()
    if not cost.definitive():
        return None, f"bounds {cost} not single-valued after refinement"
    if isinstance(e, Match):
        if a == b:
            return (len(a), 0, 0, cost.upper_bound, a, b), None
        return (0, len(a), len(b), cost.upper_bound, a, b), None
    if not isinstance(e, StringEdit):
        return None, f"unexpected edit type {type(e).__name__}"
    k = r = i = 0
    fs, ts = [], []
    with guard('StringEdit.edits'):
        subs = list(e.edit_distance.edits())
    for s in subs:
        if isinstance(s, Match):
            fs.append(s.from_node.object)
            ts.append(s.to_node.object)
            if s.from_node.object == s.to_node.object:
                k += 1
            else:
                r += 1
                i += 1
        elif isinstance(s, Remove):
            r += 1
            fs.append(s.from_node.object)
        elif isinstance(s, Insert):
            i += 1
            ts.append(s.to_insert.object)
        else:
            return None, f"unexpected sub-edit {type(s).__name__}"
    return (k, r, i, cost.upper_bound, ''.join(fs), ''.join(ts)), None


def check(case):
    old = common.default_printer_quiet()
    common.set_default_printer_quiet(bool(case.get('quiet')))
    try:
        return _check(case)
    finally:
        common.set_default_printer_quiet(old)


def _check(case):
    out = Outcome()
    if case.get('child_error'):
        out.skipped = 'python -O child unavailable: ' + case['child_error']
        return out
    if case.get('under_O') is not None:
        # verdict computed by this same function inside `python -O`; replaying such a case re-runs it here as well
        out.label('judged-under-python-O')
        for k, d in case['under_O']:
            out.fail('under-python-O:' + k, f"(python -O) {d}")
        o2 = _check({'a': case['a'], 'b': case['b']})
        out.nontrivial = o2.nontrivial
        for k, d in o2.failures:
            out.fail(k, d)
        return out
    a, b = case['a'], case['b']
    if not isinstance(a, str) or not isinstance(b, str):
        out.skipped = 'not-strings'
        return out
    if case.get('quiet'):
        out.label('quiet-printer')
    if case.get('before'):
        out.label('after-other-comparisons')
        with guard('earlier comparisons'):
            for x, y in case['before']:
                d = StringNode(x).diff(StringNode(y))
                del d
    ref = lcs(a, b)
    out.nontrivial = 0 < ref < min(len(a), len(b))
    out.label('equal' if a == b else ('disjoint' if ref == 0 else ('subsequence' if ref == min(len(a), len(b)) else 'mixed')))
    res, err = script_counts(a, b)
    if err:
        out.fail('script-shape', err)
        return out
    k, r, i, cost, fs, ts = res
    out.info = {'lcs': ref, 'kept': k, 'removed': r, 'inserted': i}
    if fs != a:
        out.fail('from-side-not-a', f"from side spells {fs!r}, a={a!r}")
    if ts != b:
        out.fail('to-side-not-b', f"to side spells {ts!r}, b={b!r}")
    if k != ref:
        out.fail('kept-not-lcs', f"a={a!r} b={b!r}: kept {k}, LCS {ref}; removed {r}, inserted {i}")
    elif r != len(a) - ref or i != len(b) - ref:
        out.fail('removed-inserted-count', f"a={a!r} b={b!r}: removed {r} inserted {i}, expected {len(a)-ref}/{len(b)-ref}")
    if out.failures:
        return out
    # the same counts from the rendering (what the user sees)
    with guard('render'):
        counts = classify_string_render(a, b)
    if counts is not None:
        rk, rr, ri = counts
        if (rk, rr, ri) != (ref, len(a) - ref, len(b) - ref):
            out.fail('rendered-counts', f"a={a!r} b={b!r}: rendering shows kept/removed/inserted {rk}/{rr}/{ri}, "
                                        f"minimal is {ref}/{len(a)-ref}/{len(b)-ref}")
    return out
