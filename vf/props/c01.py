"""C01 - the edit script turns the first document into the second."""
from collections import Counter

from hypothesis import strategies as st

from .. import common, gen
from ..canon import loose, plain
from ..core import Outcome, guard, hyp_drive
from ..script import Problems, walk

from graphtage import CompoundEdit, Insert, Match, Remove

ID = 'C01'
TITLE = 'The edit script turns the first document into the second'
LEVEL = 'exploration'
TECHNIQUE = ('Hypothesis-generated mutated document pairs x build options, independent script walker with '
             'reconstruction oracle and diff-annotation agreement')
RULE = ("Cases: pairs (25% independent, 75% b=mutate(a): element insert/delete/duplicate/permute, value change, key "
        "add/delete/rename, subtree replacement) over JSON-like documents x dict strategy {auto,match,none} x list "
        "edits {on,off,off-when-same-length}; plus multiset trees with duplicates, XML element trees, CSV tables, "
        "plist-wrapped trees and nested lists, all built through the library's builders. Oracle: an independent walker "
        "requires, for every container edit at every depth, that the from-sides of its non-insert sub-edits are exactly "
        "the first container's elements and the to-sides of its non-remove sub-edits exactly the second's (in order for "
        "lists, as multisets otherwise), that Remove/Insert name the edited container, that key/value, "
        "tag/attribute/text/children and per-character sub-edits pair corresponding components, and that the whole "
        "script reconstructs canonical(a) when inserts are dropped and canonical(b) when removes are dropped; the "
        "removed/inserted/matched_to annotations of TreeNode.diff must agree with the script, also when the result of one diff is diffed again. Non-trivial: unequal "
        "pair whose script has a Remove or Insert, or a compound edit nested inside another. Distinct by case hash.")
ASSUMPTIONS = [
    "elements are compared by canonical value modulo Python numeric equality (True == 1 == 1.0), the engine's own "
    "notion of 'same scalar'; scalar typing disagreements are C02's business",
    "documents are bounded: <= 10 leaves (quick) / 25 (thorough), containers <= 4 / 7 children",
    "XML text is compared modulo surrounding whitespace, as XMLElement equality defines it",
]
MANIFEST_TEXT = ("Generated-input exploration with an independent reconstruction oracle: every nested compound edit of "
                 "every generated pair is walked and both documents are rebuilt from the script; diff() annotations are "
                 "cross-checked. Covers JSON-like trees under all nine option combinations plus multisets, XML, CSV and "
                 "plist wrappers. Bounded sizes; absence of violations beyond them is not claimed.")
MANIFEST_NOTE = ("Trusts vf/script.py (walker) and vf/canon.py (canonical values); numbers are compared modulo Python "
                 "equality. Trees are built by the library's own builders.")
DESIGN_REF = 'DESIGN.md section 3, C01'
SHRINK = {'docs': ['a', 'b'], 'enums': {'ds': 'auto', 'le': 'on'}}
valid = gen.valid_case


def jobs(tier):
    if tier == 'quick':
        plan = [('json', 10, 4, 260), ('nested', 0, 0, 40), ('multiset', 8, 0, 50), ('xml', 5, 0, 40), ('csv', 0, 0, 25),
                ('plist', 8, 0, 25), ('skewed', 6, 0, 40), ('padded', 0, 0, 30), ('builder', 10, 4, 60), ('pyobj', 8, 0, 40), ('growing', 0, 0, 40), ('dupsib', 0, 0, 60), ('pickle', 8, 0, 30), ('mixedlists', 0, 0, 40), ('records', 0, 0, 30), ('yamlstream', 0, 0, 30)]
        shards = 16
    else:
        plan = [('json', 25, 7, 6000), ('nested', 0, 0, 800), ('multiset', 10, 0, 1200), ('xml', 8, 0, 1000),
                ('csv', 0, 0, 500), ('plist', 12, 0, 500), ('skewed', 8, 0, 800), ('padded', 0, 0, 600), ('builder', 20, 6, 1200), ('pyobj', 12, 0, 800), ('growing', 0, 0, 800), ('dupsib', 0, 0, 1000), ('pickle', 12, 0, 500), ('mixedlists', 0, 0, 800), ('records', 0, 0, 500), ('yamlstream', 0, 0, 500)]
        shards = 16
    js = []
    for s in range(shards):
        for fam, ml, mw, n in plan:
            js.append({'family': fam, 'max_leaves': ml, 'max_width': mw, 'n': n, 'shard': s})
    return js


def strategy_for(job):
    fam = job['family']
    if fam == 'json':
        return gen.json_cases(job['max_leaves'], job['max_width'])
    if fam == 'nested':
        return gen.nested_list_cases()
    if fam == 'skewed':
        return gen.skewed_cases(job['max_leaves'] or 8)
    if fam == 'padded':
        return gen.padded_cases()
    if fam == 'mixedlists':
        return gen.mixed_size_list_cases()
    if fam == 'records':
        return gen.record_cases()
    if fam == 'yamlstream':
        return gen.yaml_stream_cases()
    if fam == 'builder':
        return gen.builder_cases(job['max_leaves'] or 10, job['max_width'] or 4)
    if fam == 'pyobj':
        return gen.pyobj_cases(job['max_leaves'] or 8)
    if fam == 'growing':
        return gen.growing_dict_cases()
    if fam == 'dupsib':
        return gen.dup_sibling_cases()
    if fam == 'huge':
        return gen.huge_leaf_cases()
    if fam == 'pickle':
        return gen.pickle_cases(job['max_leaves'] or 8)
    if fam == 'multiset':
        return gen.multiset_cases(job['max_leaves'])
    if fam == 'xml':
        return gen.xml_cases(job['max_leaves'])
    if fam == 'csv':
        return gen.csv_cases()
    if fam == 'plist':
        return gen.plist_cases(job['max_leaves'])
    if fam == 'plistjson':
        return gen.plist_cases(job['max_leaves']).map(lambda c: dict(c, family='plistjson'))
    raise ValueError(fam)


def run_job(job, seed, sink):
    hyp_drive(strategy_for(job), job['n'], seed, sink)


def collect_script(e, R, I, M):
    if isinstance(e, Remove):
        R.append(e.from_node)
    elif isinstance(e, Insert):
        I.append((e.insert_into, e.to_insert))
    elif isinstance(e, Match):
        M.append((e.from_node, e.to_node))
    if isinstance(e, CompoundEdit):
        for s in e.edits():
            collect_script(s, R, I, M)


def own_dfs(n):
    stack = [n]
    while stack:
        x = stack.pop()
        yield x
        stack.extend(reversed(list(x.children())))


def check_annotations(d, out):
    R, I, M = [], [], []
    if not d.edit_list:
        out.fail('diff-no-root-edit', 'diff() returned a tree whose root carries no edit')
        return
    # on_diff() appends the root edit to the root's edit_list first (sub-edits on the same node follow)
    collect_script(d.edit_list[0], R, I, M)
    nodes = list(own_dfs(d))
    ids = {id(n) for n in nodes}
    for n in R:
        if id(n) not in ids:
            out.fail('annotation:remove-outside-diff', 'a Remove in the script names a node that is not in the diff tree')
            return
    for into, _ in I:
        if id(into) not in ids:
            out.fail('annotation:insert-outside-diff', 'an Insert in the script names a container that is not in the diff tree')
            return
    rset = Counter(id(n) for n in R)
    iset = {}
    for into, node in I:
        iset.setdefault(id(into), Counter())[id(node)] += 1
    mset = {}
    for fn, tn in M:
        mset.setdefault(id(fn), []).append(tn)
    for n in nodes:
        if not hasattr(n, 'removed'):
            out.fail('annotation:not-edited-node', f"diff tree contains a {type(n).__name__} that is not an EditedTreeNode")
            return
        if bool(n.removed) != (id(n) in rset):
            out.fail('annotation:removed-flag', f"node {plain(n)!r}: removed={n.removed} but script {'removes' if id(n) in rset else 'does not remove'} it")
            return
        got = Counter(id(x) for x in n.inserted)
        if got != iset.get(id(n), Counter()):
            out.fail('annotation:inserted-list', f"container {type(n).__name__}: inserted list has {sum(got.values())} nodes, script inserts "
                                                 f"{sum(iset.get(id(n), Counter()).values())} into it")
            return
        if n.matched_to is not None and not any(n.matched_to is tn for tn in mset.get(id(n), [])):
            out.fail('annotation:matched-to', 'matched_to does not name the to-node of a Match on that node')
            return


def check(case):
    out = Outcome()
    fam = case.get('family', 'json')
    with guard('build'):
        a, b = gen.build(case, 'a'), gen.build(case, 'b')
    if fam in ('pyobj', 'pickle'):
        # no independent rendering of custom objects: the script is compared with the canonical value of the built trees
        ea, eb = plain(a), plain(b)
    else:
        ea, eb = loose(gen.expected_plain(case, 'a')), loose(gen.expected_plain(case, 'b'))
    with guard('edits+refine'):
        e = a.edits(b)
        common.full_tighten(e)
    probs = Problems()
    with guard('walk script'):
        rec = walk(e, probs)
    kinds = Counter(x.kind for x in rec.all())
    depth2 = any(s.subs for x in rec.all() for s in x.subs if x.subs)
    nested = sum(1 for x in rec.all() if x.subs) >= 2
    out.nontrivial = ea != eb and (kinds['remove'] + kinds['insert'] > 0 or nested)
    out.label('family:' + fam, 'ds:' + case.get('ds', 'auto'), 'le:' + case.get('le', 'on'),
              'equal' if ea == eb else 'unequal')
    for k in ('remove', 'insert', 'string', 'replace', 'kvp', 'ordered', 'unordered', 'xml'):
        if kinds[k]:
            out.label('has:' + k)
    if nested:
        out.label('nested-compound')
    out.info = {'edit': type(e).__name__, 'kinds': dict(kinds)}
    for key, detail in probs.of('structure'):
        out.fail(key, detail)
    if not probs.of('structure'):
        if rec.pf != ea:
            out.fail('reconstruct-first', f"dropping inserts gives {rec.pf!r}, first document is {ea!r}")
        if rec.pt != eb:
            out.fail('reconstruct-second', f"dropping removes gives {rec.pt!r}, second document is {eb!r}")
    # annotations on the edited copy returned by diff(), on freshly built trees
    with guard('build'):
        a2, b2 = gen.build(case, 'a'), gen.build(case, 'b')
    with guard('diff'):
        d = a2.diff(b2)
    with guard('annotations'):
        check_annotations(d, out)
        pd = plain(d)
    if pd != ea:
        out.fail('diff-tree-not-first-document', f"diff tree without inserted nodes is {pd!r}, first document is {ea!r}")
    if out.failures:
        return out
    # the result of a diff is itself a document: diff it again (against the first document, to which it is equal as data)
    with guard('build'):
        a3 = gen.build(case, 'a')
    with guard('diff of a diff result'):
        d2 = d.diff(a3)
    with guard('annotations of the second diff'):
        before = len(out.failures)
        check_annotations(d2, out)
        pd2 = plain(d2)
    out.failures[before:] = [('second-diff-' + k, dd) for k, dd in out.failures[before:]]
    if pd2 != ea:
        out.fail('second-diff-tree-not-first-document', f"diffing a diff result again gives a tree that reads {pd2!r}, not {ea!r}")
    return out
