"""Canonical forms: what "equal as data" means in an oracle (DESIGN 2.4). Computed from inputs / node classes only,
never through graphtage's to_obj(), __eq__ or traversal helpers."""
import math

from . import common  # noqa: F401
from graphtage import (KeyValuePairNode, LeafNode, ListNode, MappingNode, MultiSetNode, NullNode)
from graphtage.plist import PLISTNode
from graphtage.xml import XMLElement


def _num(o, strict):
    if isinstance(o, float) and o != o:
        return ('nan',)
    if strict:
        if isinstance(o, bool):
            return ('bool', o)
        if isinstance(o, int):
            return ('int', o)
        return ('float', repr(o))
    if isinstance(o, bool):
        return ('bool', o)          # a boolean is not a number (LeafNode equality agrees since the F10 fix)
    if isinstance(o, float) and math.isinf(o):
        return ('num', repr(o))
    if o == int(o):
        return ('num', int(o))
    return ('num', o)


def scalar(o, strict):
    if o is None:
        return ('null',)
    if isinstance(o, (bool, int, float)):
        return _num(o, strict)
    if isinstance(o, bytes):
        return ('str', o.decode('utf-8', 'replace'))
    if isinstance(o, str):
        return ('str', o)
    return ('other', repr(o))


def _sortkey(x):
    return repr(x)


def canon(o, strict):
    """Canonical hashable value of a plain Python document (dict = unordered set of pairs, list/tuple = ordered)."""
    if isinstance(o, dict):
        return ('set', tuple(sorted((('kvp', canon(k, strict), canon(v, strict)) for k, v in o.items()), key=_sortkey)))
    if isinstance(o, (list, tuple)):
        return ('list', tuple(canon(x, strict) for x in o))
    if isinstance(o, MS):
        return ('set', tuple(sorted((canon(x, strict) for x in o.items), key=_sortkey)))
    if isinstance(o, XML):
        return ('xml', ('str', o.tag),
                ('set', tuple(sorted((('kvp', ('str', k), ('str', v)) for k, v in o.attrib.items()), key=_sortkey))),
                ('str', (o.text or '').strip()),
                ('list', tuple(canon(c, strict) for c in o.children)))
    return scalar(o, strict)


def strict(o):
    return canon(o, True)


def loose(o):
    return canon(o, False)


class MS:
    """Marker for a multiset in a plain document."""
    def __init__(self, items):
        self.items = list(items)


class XML:
    def __init__(self, tag, attrib=None, text=None, children=()):
        self.tag, self.attrib, self.text, self.children = tag, dict(attrib or {}), text, list(children)


def plain(n, strict_=False):
    """Canonical value of a graphtage tree, dispatching on node classes (no to_obj(), no node __eq__)."""
    if isinstance(n, KeyValuePairNode):
        return ('kvp', plain(n.key, strict_), plain(n.value, strict_))
    if isinstance(n, NullNode):
        return ('null',)
    if isinstance(n, LeafNode):
        return scalar(n.object, strict_)
    if isinstance(n, PLISTNode):
        return plain(n.root, strict_)
    if isinstance(n, XMLElement):
        text = n.text.object.strip() if n.text is not None else ''
        return ('xml', plain(n.tag, strict_), plain(n.attrib, strict_), ('str', text), plain(n._children, strict_))
    if isinstance(n, (MappingNode, MultiSetNode)):
        return ('set', tuple(sorted((plain(c, strict_) for c in n), key=_sortkey)))
    if isinstance(n, ListNode):
        return ('list', tuple(plain(c, strict_) for c in n))
    from graphtage.tree import ContainerNode
    if isinstance(n, ContainerNode):
        # other compound nodes (PyObj, DataClassNode subclasses, ...): class name + children in order
        name = type(n).__name__
        if name.startswith('Edited'):
            name = name[len('Edited'):]
        return ('node', name, tuple(plain(c, strict_) for c in n.children()))
    raise TypeError(f"plain(): unknown node class {type(n).__name__}")


def differs_only_in_number_typing(a, b):
    """strict-unequal but loose-equal: the pair differs only by int/float/bool re-typing of equal numbers."""
    return strict(a) != strict(b) and loose(a) == loose(b)


def _walk_scalars(a, b, out):
    """Collects (x, y) for positions where two loose-equal documents hold scalars."""
    if isinstance(a, dict) and isinstance(b, dict):
        for k in a:
            if k in b:
                _walk_scalars(a[k], b[k], out)
    elif isinstance(a, (list, tuple)) and isinstance(b, (list, tuple)):
        for x, y in zip(a, b):
            _walk_scalars(x, y, out)
    else:
        out.append((a, b))


def retyping_kinds(a, b):
    """For a pair that differs only in number typing: the set of {type-name pairs} involved, e.g. {('bool','int')}."""
    out = []
    _walk_scalars(a, b, out)
    kinds = set()
    for x, y in out:
        if type(x) is not type(y):
            kinds.add(tuple(sorted((type(x).__name__, type(y).__name__))))
    return kinds
