"""Common machinery: seeds, sharding, collect-mode failure bucketing, shrinking, replay, evidence, known findings.

A property module (vf/props/cNN.py) exposes:

    ID, TITLE, LEVEL ('exploration' | 'fault_enumeration'), RULE (str), ASSUMPTIONS (list[str])
    jobs(tier) -> list[dict]                 shard descriptors (JSON-able); each is run in its own worker process
    run_job(job, seed, sink)                 generates cases and calls sink(case) for each one
    check(case) -> Outcome                   deterministic oracle for one JSON-able case
    SHRINK = {'docs': [...], 'lists': [...], 'enums': {...}, 'strings': [...]}   what the generic shrinker may touch
    PREDICATES = {name: fn(case, key, detail) -> bool}     input predicates referenced by known_findings.json

Everything a case needs is inside the case, so `--replay FILE` needs no generator.
"""
import hashlib
import json
import multiprocessing
import os
import signal
import sys
import time
import traceback
from collections import Counter

VERIF = os.path.dirname(os.path.dirname(os.path.abspath(__file__)))
REPO = os.path.realpath(os.environ.get('VERIF_REPO', '/repo'))
NPROC = int(os.environ.get('VERIF_NPROC', '16'))
CASE_TIMEOUT = int(os.environ.get('VERIF_CASE_TIMEOUT', '60'))


_scratch_root = None
_scratch_owner = None


def scratch_root():
    """Per-run scratch directory (tmpfs when available), created by the parent and removed when the run ends."""
    global _scratch_root
    if _scratch_root is None:
        env = os.environ.get('VERIF_SCRATCH')
        if env and os.path.isdir(env):
            _scratch_root = env
        else:
            import tempfile
            base = '/dev/shm' if os.path.isdir('/dev/shm') and os.access('/dev/shm', os.W_OK) else tempfile.gettempdir()
            _scratch_root = tempfile.mkdtemp(prefix='vfscratch.', dir=base)
            os.environ['VERIF_SCRATCH'] = _scratch_root
            global _scratch_owner
            _scratch_owner = os.getpid()
    return _scratch_root


def scratch_dir():
    d = os.path.join(scratch_root(), str(os.getpid()))
    os.makedirs(d, exist_ok=True)
    return d


def cleanup_scratch():
    import shutil
    if _scratch_root and os.path.isdir(_scratch_root):
        if _scratch_owner == os.getpid():
            shutil.rmtree(_scratch_root, ignore_errors=True)
        else:       # a child interpreter only removes its own sub-directory
            shutil.rmtree(os.path.join(_scratch_root, str(os.getpid())), ignore_errors=True)


class HarnessError(Exception):
    """Something is wrong with the harness itself (exit 2, never a VIOLATION)."""


class GtError(Exception):
    """An exception escaped from graphtage inside a guarded call."""
    def __init__(self, key, detail):
        super().__init__(f"{key}: {detail}")
        self.key = key
        self.detail = detail


class Bad(Exception):
    """An oracle failure: `kind` is the root-cause key."""
    def __init__(self, kind, msg=''):
        super().__init__(f"{kind}: {msg}")
        self.kind = kind
        self.msg = msg


class CaseTimeout(BaseException):
    pass


class Outcome:
    __slots__ = ('failures', 'nontrivial', 'labels', 'skipped', 'info')

    def __init__(self):
        self.failures = []      # list of (key, detail)
        self.nontrivial = False
        self.labels = []        # class labels for the distribution report
        self.skipped = None     # reason string when the case is outside the property's domain
        self.info = None        # optional small JSON-able summary shown with samples

    def fail(self, key, detail=''):
        self.failures.append((key, str(detail)[:600]))

    def label(self, *labels):
        self.labels.extend(labels)


def innermost_repo_frame(tb):
    """(file:function) of the innermost traceback frame that lies inside the repository's package."""
    best = None
    pkg = os.path.join(REPO, 'graphtage') + os.sep
    for fs in traceback.extract_tb(tb):
        fn = os.path.realpath(fs.filename)
        if fn.startswith(pkg):
            best = f"{os.path.basename(fn)}:{fs.name}"
    return best


class guard:
    """Context manager around calls into graphtage: any Exception becomes GtError keyed by (type, innermost frame).

    Exceptions whose traceback never enters the repository are harness errors and propagate unchanged.
    """
    def __init__(self, what='', allow=()):
        self.what = what
        self.allow = allow

    def __enter__(self):
        return self

    def __exit__(self, et, ev, tb):
        if et is None:
            return False
        if issubclass(et, (GtError, Bad, CaseTimeout, HarnessError, KeyboardInterrupt)):
            return False
        if self.allow and issubclass(et, self.allow):
            return False
        if not issubclass(et, (Exception, SystemExit)):
            return False
        frame = innermost_repo_frame(tb)
        if frame is None:
            return False
        msg = str(ev).replace('\n', ' ')[:200]
        raise GtError(f"exception:{et.__name__}@{frame}", f"{self.what}: {et.__name__}: {msg}") from ev


def derive_seed(seed, *parts):
    h = hashlib.sha256(('%d|' % seed + '|'.join(map(str, parts))).encode()).digest()
    return int.from_bytes(h[:4], 'big')


def case_hash(case):
    return hashlib.md5(json.dumps(case, sort_keys=True, default=repr).encode()).hexdigest()[:16]


def case_size(case):
    return len(json.dumps(case, sort_keys=True, default=repr))


# ----------------------------------------------------------------------------------------------------------------
# Hypothesis driver (collect mode: the test body never raises for property failures)

def hyp_drive(strategy, n, seed, sink):
    import hypothesis
    from hypothesis import given, settings, HealthCheck, Phase

    @hypothesis.seed(seed)
    @settings(max_examples=n, database=None, deadline=None, derandomize=False, report_multiple_bugs=False,
              phases=[Phase.generate], suppress_health_check=list(HealthCheck))
    @given(strategy)
    def drive(case):
        sink(case)

    drive()


# ----------------------------------------------------------------------------------------------------------------
# Worker side

def _alarm(signum, frame):
    raise CaseTimeout()


class Collector:
    def __init__(self, mod, keep_samples=4):
        self.mod = mod
        self.evaluations = 0
        self.nontrivial_hashes = set()
        self.labels = Counter()
        self.skipped = Counter()
        self.failures = {}      # key -> (size, case, detail, count)
        self.samples = []
        self.keep_samples = keep_samples
        self.timeouts = 0
        self.timeout_cases = []
        self.bulk_nontrivial = 0
        self.known = load_known()

    def __call__(self, case):
        out = run_check(self.mod, case)
        if out == 'timeout':
            self.timeouts += 1
            if len(self.timeout_cases) < 3:
                self.timeout_cases.append(case)
            return
        self.evaluations += 1
        if out.skipped:
            self.skipped[out.skipped] += 1
            return
        for lab in out.labels:
            self.labels[lab] += 1
        if out.nontrivial:
            h = case_hash(case)
            if h not in self.nontrivial_hashes:
                self.nontrivial_hashes.add(h)
                if len(self.samples) < self.keep_samples:
                    s = {'case': case}
                    if out.info is not None:
                        s['info'] = out.info
                    self.samples.append(s)
        for key, detail in out.failures:
            sz = case_size(case)
            # bucket by (root-cause key, matching open known finding or None): a listed finding must never hide a
            # different violation that happens to share its key
            ent = match_known(self.mod, self.known, case, key, detail)
            bucket = key + '\x00' + (ent.get('id', 'known') if ent is not None else '')
            old = self.failures.get(bucket)
            if old is None:
                self.failures[bucket] = [sz, case, detail, 1]
            else:
                old[3] += 1
                if sz < old[0]:
                    old[0], old[1], old[2] = sz, case, detail

    def fast(self, case):
        """For exhaustively enumerated spaces (each case visited exactly once, so distinct by construction): no
        watchdog, no hashing; anything unusual falls back to the normal path."""
        from . import common
        common.LOOPS.reset()
        try:
            out = self.mod.check(case)
        except (GtError, Bad):
            return self(case)
        if out.failures or out.skipped:
            return self(case)
        self.evaluations += 1
        for lab in out.labels:
            self.labels[lab] += 1
        if out.nontrivial:
            self.bulk_nontrivial += 1
            if len(self.samples) < self.keep_samples:
                s = {'case': case}
                if out.info is not None:
                    s['info'] = out.info
                self.samples.append(s)

    def result(self):
        return {
            'evaluations': self.evaluations,
            'nontrivial': sorted(self.nontrivial_hashes),
            'labels': dict(self.labels),
            'skipped': dict(self.skipped),
            'failures': self.failures,
            'samples': self.samples,
            'timeouts': self.timeouts,
            'timeout_cases': self.timeout_cases,
            'bulk_nontrivial': self.bulk_nontrivial,
        }


def run_check(mod, case):
    """Runs mod.check(case) under a watchdog. Returns Outcome or 'timeout'. Oracle exceptions -> HarnessError."""
    from . import common
    common.WIDEN.reset()
    common.LOOPS.reset()
    signal.signal(signal.SIGALRM, _alarm)
    signal.alarm(CASE_TIMEOUT)
    try:
        try:
            out = mod.check(case)
        finally:
            signal.alarm(0)
    except CaseTimeout:
        return 'timeout'
    except GtError as e:
        out = Outcome()
        out.fail(e.key, e.detail)
    except Bad as e:
        out = Outcome()
        out.fail(e.kind, e.msg)
    return out


def _quiet_worker():
    if not os.environ.get('VERIF_KEEP_STDERR'):
        sys.stderr = open(os.devnull, 'w')


def _worker(args):
    modname, job, seed = args
    try:
        _quiet_worker()
        mod = load_prop(modname)
        col = Collector(mod)
        if job.get('__corpus__'):
            for _, case in corpus_cases(mod.ID):
                col(case)
        else:
            mod.run_job(job, seed, col)
        return ('ok', job, col.result())
    except BaseException:
        return ('error', job, traceback.format_exc())


def load_prop(pid):
    import importlib
    return importlib.import_module('vf.props.' + pid.lower())


# ----------------------------------------------------------------------------------------------------------------
# Known findings

def load_known():
    path = os.path.join(VERIF, 'known_findings.json')
    if not os.path.exists(path):
        return []
    with open(path) as f:
        return json.load(f)['findings']


def match_known(mod, known, case, key, detail):
    """Returns the matching *open* entry for this failure or None. `fixed` entries suppress nothing."""
    for ent in known:
        if ent.get('property') != mod.ID or ent.get('status') != 'open':
            continue
        if 'key_re' in ent:
            import re
            if not re.fullmatch(ent['key_re'], key):
                continue
        elif ent.get('key') != key:
            continue
        pred = ent.get('predicate')
        if pred is None:
            return ent
        fn = getattr(mod, 'PREDICATES', {}).get(pred)
        if fn is None:
            raise HarnessError(f"known_findings.json names unknown predicate {pred!r} for {mod.ID}")
        try:
            hit = fn(case, key, detail)
        except Exception:
            hit = False         # a predicate that cannot read the case does not match: the failure stays a violation
        if hit:
            return ent
    return None


# ----------------------------------------------------------------------------------------------------------------
# Generic shrinker over JSON-able cases (count-bounded, never time-bounded)

def _doc_candidates(d):
    """Smaller variants of a free-form JSON document, roughly most-aggressive first."""
    if isinstance(d, list):
        for x in d:
            yield x                         # replace container by a child
        if d:
            yield []
        n = len(d)
        if n > 1:
            yield d[:n // 2]
            yield d[n // 2:]
        for i in range(n):
            yield d[:i] + d[i + 1:]
        for i in range(n):
            for c in _doc_candidates(d[i]):
                yield d[:i] + [c] + d[i + 1:]
    elif isinstance(d, dict):
        for v in d.values():
            yield v
        if d:
            yield {}
        ks = list(d)
        for k in ks:
            yield {kk: vv for kk, vv in d.items() if kk != k}
        for k in ks:
            for c in _doc_candidates(d[k]):
                nd = dict(d)
                nd[k] = c
                yield nd
    elif isinstance(d, str):
        if d:
            yield ''
            if len(d) > 1:
                yield d[:len(d) // 2]
                yield d[len(d) // 2:]
                for i in range(len(d)):
                    yield d[:i] + d[i + 1:]
            for i, ch in enumerate(d):
                if ch != 'a':
                    yield d[:i] + 'a' + d[i + 1:]
    elif isinstance(d, bool):
        pass
    elif isinstance(d, int):
        if d != 0:
            yield 0
            if abs(d) > 1:
                yield d // 2
    elif isinstance(d, float):
        if d != 0.0:
            yield 0.0
            yield 0.5


def _list_candidates(xs):
    n = len(xs)
    if n:
        yield []
    if n > 1:
        k = n // 2
        while k >= 1:
            for i in range(0, n, k):
                yield xs[:i] + xs[i + k:]
            k //= 2


def shrink(mod, case, key, budget):
    spec = getattr(mod, 'SHRINK', {})
    tries = 0

    valid = getattr(mod, 'valid', None)

    def fails(c):
        nonlocal tries
        if valid is not None:
            try:
                if not valid(c):
                    return False
            except Exception:       # a shrink candidate the module's validity test cannot even read is not a candidate
                return False
        tries += 1
        try:
            out = run_check(mod, c)
        except Exception:
            return False
        if out == 'timeout' or out.skipped:
            return False
        return any(k == key for k, _ in out.failures)

    improved = True
    while improved and tries < budget:
        improved = False
        for field in spec.get('lists', []):
            if field not in case:
                continue
            for cand in _list_candidates(case[field]):
                if tries >= budget:
                    break
                c2 = dict(case)
                c2[field] = cand
                if fails(c2):
                    case = c2
                    improved = True
                    break
        for field, simplest in spec.get('enums', {}).items():
            if field in case and case[field] != simplest and tries < budget:
                c2 = dict(case)
                c2[field] = simplest
                if fails(c2):
                    case = c2
                    improved = True
        for field in spec.get('docs', []) + spec.get('strings', []):
            if field not in case:
                continue
            progress = True
            while progress and tries < budget:
                progress = False
                for cand in _doc_candidates(case[field]):
                    if tries >= budget:
                        break
                    if field in spec.get('strings', []) and not isinstance(cand, str):
                        continue
                    c2 = dict(case)
                    c2[field] = cand
                    if case_size(c2) >= case_size(case):
                        continue
                    if fails(c2):
                        case = c2
                        progress = True
                        improved = True
                        break
    return case, tries


# ----------------------------------------------------------------------------------------------------------------
# Parent side: run a property

def corpus_cases(pid):
    d = os.path.join(VERIF, 'corpus', pid)
    out = []
    if os.path.isdir(d):
        for fn in sorted(os.listdir(d)):
            if fn.endswith('.json'):
                with open(os.path.join(d, fn)) as f:
                    obj = json.load(f)
                out.append((fn, obj['case'] if isinstance(obj, dict) and 'case' in obj and 'property' in obj else obj))
    return out


def write_replay(pid, key, case, detail):
    d = os.path.join(VERIF, 'replays', pid)
    os.makedirs(d, exist_ok=True)
    name = hashlib.md5(key.encode()).hexdigest()[:10] + '.json'
    path = os.path.join(d, name)
    with open(path, 'w') as f:
        # no sort_keys: mapping key order inside a case is part of the input (C07/C08)
        json.dump({'property': pid, 'key': key, 'observed': detail, 'case': case}, f, indent=1, default=repr)
    return os.path.relpath(path, VERIF)


def write_evidence(mod, tier, seed, coverage, wall, violations, assumptions_extra=()):
    d = os.path.join(VERIF, 'evidence')
    os.makedirs(d, exist_ok=True)
    ev = {
        'property_id': mod.ID,
        'tier': tier,
        'seed': seed,
        'level': mod.LEVEL,
        'coverage': coverage,
        'assumptions': list(mod.ASSUMPTIONS) + list(assumptions_extra),
        'wall_s': round(wall, 2),
        'violations': violations,
    }
    with open(os.path.join(d, mod.ID + '.json'), 'w') as f:
        json.dump(ev, f, indent=1, sort_keys=True, default=repr)
        f.write('\n')


def check_repo_import():
    import graphtage
    gf = os.path.realpath(graphtage.__file__)
    if not gf.startswith(REPO + os.sep):
        raise HarnessError(f"graphtage imported from {gf}, not from {REPO}")


def run_property(pid, tier, seed, replay=None):
    t0 = time.time()
    check_repo_import()
    scratch_root()
    mod = load_prop(pid)
    known = load_known()
    if replay is not None:
        return run_replay(mod, known, replay)

    merged = Collector(mod)
    merged_fail = {}
    total = {'evaluations': 0, 'timeouts': 0}
    labels, skipped = Counter(), Counter()
    nontrivial = set()
    samples = []

    # 1. regression corpus + known-finding reproducers: the first job of the pool. Nothing of graphtage runs in the parent
    #    before the workers are forked: the first tqdm object creates a process-shared lock, and children forked after that
    #    would serialise on it (a 10x slowdown measured on C05).
    corpus = corpus_cases(mod.ID)
    _quiet_worker()
    results = []

    # 2. generated / enumerated shards, in worker processes
    jobs = mod.jobs(tier)
    args = [(pid, {'__corpus__': True}, seed)] + [(pid, job, derive_seed(seed, pid, i)) for i, job in enumerate(jobs)]
    if args:
        ctx = multiprocessing.get_context('fork')
        with ctx.Pool(min(NPROC, len(args))) as pool:
            for status, job, res in pool.imap(_worker, args, chunksize=1):
                if status != 'ok':
                    sys.stdout.write(f"HARNESS-ERROR property={pid} job={job}\n{res}\n")
                    return 2
                results.append(res)

    timeout_cases = []
    bulk_nontrivial = 0
    for res in results:
        bulk_nontrivial += res.get('bulk_nontrivial', 0)
        timeout_cases.extend(res.get('timeout_cases', []))
        total['evaluations'] += res['evaluations']
        total['timeouts'] += res['timeouts']
        labels.update(res['labels'])
        skipped.update(res['skipped'])
        nontrivial.update(res['nontrivial'])
        for s in res['samples']:
            if len(samples) < 6:
                samples.append(s)
        for key, (sz, case, detail, cnt) in res['failures'].items():
            old = merged_fail.get(key)
            if old is None:
                merged_fail[key] = [sz, case, detail, cnt]
            else:
                old[3] += cnt
                if sz < old[0]:
                    old[0], old[1], old[2] = sz, case, detail

    # 3. triage: known finding vs violation; shrink the new ones
    budget = 300 if tier == 'quick' else 3000
    budget = getattr(mod, 'SHRINK_BUDGET', {}).get(tier, budget)
    violations = []
    known_hits = []
    for bucket in sorted(merged_fail):
        sz, case, detail, cnt = merged_fail[bucket]
        key = bucket.split('\x00')[0]
        ent = match_known(mod, known, case, key, detail)
        if ent is not None:
            known_hits.append((ent, key, cnt))
            continue
        small, tries = shrink(mod, case, key, budget)
        out = run_check(mod, small)
        d2 = detail
        if out != 'timeout':
            for k, d in out.failures:
                if k == key:
                    d2 = d
        # a shrunk case may have slid into a known finding's class: keep the unshrunk one then
        if match_known(mod, known, small, key, d2) is not None:
            small, d2 = case, detail
        path = write_replay(mod.ID, key, small, d2)
        violations.append((key, path, cnt, d2))

    for i, tc in enumerate(timeout_cases[:5]):
        tp = write_replay(mod.ID, f'timeout-{i}', tc, f'watchdog ({CASE_TIMEOUT}s) expired: inconclusive, not a violation')
        sys.stdout.write(f"INCONCLUSIVE property={mod.ID} case exceeded the {CASE_TIMEOUT}s watchdog: {tp}\n")
    printed = set()
    for ent, key, cnt in known_hits:
        tag = ent.get('id', key)
        if tag in printed:
            continue
        printed.add(tag)
        sys.stdout.write(f"KNOWN-FINDING: property={mod.ID} {ent.get('what', key)} [key={key}, {cnt} case(s) this run]\n")
    for key, path, cnt, detail in violations:
        sys.stdout.write(f"VIOLATION property={mod.ID} replay={path}\n")
        sys.stdout.write(f"  key={key} cases={cnt} observed: {detail}\n")

    wall = time.time() - t0
    coverage = {
        'evaluations': total['evaluations'],
        'distinct_nontrivial': len(nontrivial) + bulk_nontrivial,
        'rule': mod.RULE,
        'samples': samples,
        'class_distribution': dict(sorted(labels.items())),
        'skipped_outside_domain': dict(sorted(skipped.items())),
        'inconclusive_timeouts': total['timeouts'],
        'corpus_cases_replayed': len(corpus),
        'shards': len(jobs),
        'known_findings_hit': sorted({ent.get('id', key) for ent, key, _ in known_hits}),
        'violation_keys': [v[0] for v in violations],
    }
    if getattr(mod, 'EXHAUSTIVE', None):
        coverage['exhaustive'] = bool(mod.EXHAUSTIVE(tier))
    extra = getattr(mod, 'coverage_extra', None)
    if extra:
        coverage.update(extra(tier))
    write_evidence(mod, tier, seed, coverage, wall, len(violations))
    sys.stdout.write(f"{mod.ID} {tier} seed={seed}: {total['evaluations']} cases, {len(nontrivial) + bulk_nontrivial} distinct non-trivial, "
                     f"{len(violations)} violation(s), {len(printed)} known finding(s), "
                     f"{total['timeouts']} inconclusive, {wall:.1f}s\n")
    if total['evaluations'] == 0:
        sys.stdout.write(f"HARNESS-ERROR property={pid}: no cases were evaluated\n")
        return 2
    return 1 if violations else 0


def run_replay(mod, known, path):
    with open(path) as f:
        obj = json.load(f)
    case = obj['case'] if isinstance(obj, dict) and 'case' in obj and 'property' in obj else obj
    _quiet_worker()
    out = run_check(mod, case)
    if out == 'timeout':
        sys.stdout.write(f"INCONCLUSIVE property={mod.ID} replay={path} (watchdog)\n")
        return 0
    rc = 0
    for key, detail in out.failures:
        ent = match_known(mod, known, case, key, detail)
        if ent is not None:
            sys.stdout.write(f"KNOWN-FINDING: property={mod.ID} {ent.get('what', key)} [key={key}]\n")
        else:
            sys.stdout.write(f"VIOLATION property={mod.ID} replay={path}\n  key={key} observed: {detail}\n")
            rc = 1
    if not out.failures:
        sys.stdout.write(f"{mod.ID}: replayed case holds ({'skipped: ' + out.skipped if out.skipped else 'ok'})\n")
    return rc
