"""Harness neutralisations and small helpers shared by all property modules (imported once per process)."""
import io
import os
import sys

import colorama

# Printer(ansi_color=True) calls colorama.init() on every construction and each call re-wraps sys.stdout; thousands
# of colour printers in one process end in RecursionError inside colorama. Harness-volume artefact (DESIGN 2.6).
colorama.init = lambda *a, **k: None

import graphtage                                    # noqa: E402
import graphtage.printer as printermodule           # noqa: E402
from graphtage.printer import Printer               # noqa: E402

TIGHTEN_LIMIT = 200000

DS = ('auto', 'match', 'none')
LE = ('on', 'off', 'same')


def build_options(ds='auto', le='on', api_none=False, **extra):
    """BuildOptions exactly as graphtage/__main__.py derives them from --dict-strategy / -l / -ll. With api_none the 'none'
    strategy is asked for the way a library user would: BuildOptions(allow_key_edits=False), auto_match_keys left at its
    default (the command line always clears both)."""
    kw = dict(extra)
    if ds == 'none' and api_none:
        kw.update(allow_key_edits=False)
    elif ds == 'none':
        kw.update(allow_key_edits=False, auto_match_keys=False)
    elif ds == 'match':
        kw.update(allow_key_edits=True, auto_match_keys=False)
    else:
        kw.update(allow_key_edits=True, auto_match_keys=True)
    kw['allow_list_edits'] = le != 'off'
    kw['allow_list_edits_when_same_length'] = le != 'same'
    return graphtage.BuildOptions(**kw)


class Cap(io.StringIO):
    """In-memory stream whose close() is a no-op (Printer.close() closes the stream it was given)."""
    def close(self):
        pass

    def isatty(self):
        return False


def full_tighten(e, limit=TIGHTEN_LIMIT):
    """The canonical driver: refine until tighten_bounds() reports no progress. Count-bounded, not time-bounded."""
    from .core import Bad
    n = 0
    while e.tighten_bounds():
        n += 1
        if n > limit:
            raise Bad('nontermination', f"{type(e).__name__}.tighten_bounds() still True after {limit} calls")
    return n


_import_time_printer = graphtage.printer.DEFAULT_PRINTER


def set_default_printer_quiet(quiet: bool):
    """tree.py / levenshtein.py / json.py captured the import-time DEFAULT_PRINTER object; toggling `quiet` on that
    shared object is the only way the library's "quiet" branches are reached through the library API."""
    _import_time_printer.quiet = quiet


def default_printer_quiet() -> bool:
    return _import_time_printer.quiet


def json_safe(x):
    """Best-effort JSON-able rendering for details."""
    try:
        import json
        json.dumps(x)
        return x
    except Exception:
        return repr(x)


# -- deterministic detection of one non-termination pattern ---------------------------------------------------------
# bounds.repeat_until_tightened loops forever when the wrapped step *widens* the interval, logging a warning on each
# iteration. Counting those warnings turns that hang into a count-bounded failure instead of a wall-clock timeout.
import logging  # noqa: E402

WIDEN_LOOP_LIMIT = 2000


class _WidenCounter(logging.Handler):
    def __init__(self):
        super().__init__(level=logging.WARNING)
        self.count = 0
        self.last = ''

    def reset(self):
        self.count = 0
        self.last = ''

    def emit(self, record):
        try:
            msg = record.getMessage()
        except Exception:
            return
        if 'The most recent call to' in msg:
            self.count += 1
            self.last = msg[:300]
            if self.count > WIDEN_LOOP_LIMIT:
                from .core import Bad
                self.count = 0
                raise Bad('nontermination:widening-loop',
                          f"more than {WIDEN_LOOP_LIMIT} 'bounds widened' warnings in one operation; last: {self.last}")


WIDEN = _WidenCounter()
_gl = logging.getLogger('graphtage')
_gl.addHandler(WIDEN)
# (propagation stays on: the command line's own logging configuration must keep working under the harness)


# -- deterministic loop budget ---------------------------------------------------------------------------------------
# Every loop iteration in Python code ends in a backward jump; sys.monitoring (3.12+) reports JUMP events cheaply.
# Counting the JUMP events that happen inside the repository's package gives a count-based (not wall-clock-based)
# non-termination detector for every check: exceeding LOOP_BUDGET jumps inside graphtage during one case raises Bad.
LOOP_BUDGET = int(os.environ.get('VERIF_LOOP_BUDGET', '20000000'))


class _LoopBudget:
    def __init__(self):
        self.count = 0
        self.limit = LOOP_BUDGET
        self.tripped = False
        self.installed = False
        self.prefix = None

    def reset(self, limit=None):
        self.count = 0
        self.tripped = False
        self.limit = LOOP_BUDGET if limit is None else limit

    def install(self):
        if self.installed or not hasattr(sys, 'monitoring'):
            return
        from .core import REPO
        self.prefix = os.path.join(REPO, 'graphtage') + os.sep
        mon = sys.monitoring
        tool = 4
        try:
            mon.use_tool_id(tool, 'vf-loop-budget')
        except ValueError:
            return
        budget = self

        def on_jump(code, offset, dest):
            if not code.co_filename.startswith(budget.prefix):
                return mon.DISABLE
            budget.count += 1
            if budget.count > budget.limit:
                budget.tripped = True
                from .core import Bad
                raise Bad('nontermination:loop-budget',
                          f"more than {budget.limit} loop iterations inside graphtage during one case "
                          f"(last in {os.path.basename(code.co_filename)}:{code.co_name})")

        mon.register_callback(tool, mon.events.JUMP, on_jump)
        mon.set_events(tool, mon.events.JUMP)
        self.installed = True


LOOPS = _LoopBudget()
LOOPS.install()
