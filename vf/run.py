"""Entry point: python -m vf.run <ID> [quick|thorough] [--replay FILE]"""
import os
import sys
import traceback


def main(argv):
    args = [a for a in argv[1:]]
    replay = None
    if '--replay' in args:
        i = args.index('--replay')
        replay = args[i + 1]
        del args[i:i + 2]
    if not args:
        sys.stdout.write("usage: check <ID> [quick|thorough] [--replay FILE]\n")
        return 2
    pid = args[0].upper()
    tier = args[1] if len(args) > 1 else os.environ.get('VERIF_TIER', 'quick')
    if tier not in ('quick', 'thorough'):
        tier = 'quick'
    try:
        seed = int(os.environ.get('VERIF_SEED', '1'))
    except ValueError:
        seed = 1
    sys.setrecursionlimit(5000)
    from vf import core
    try:
        return core.run_property(pid, tier, seed, replay)
    except BaseException:
        sys.stdout.write(f"HARNESS-ERROR property={pid}\n{traceback.format_exc()}\n")
        return 2
    finally:
        core.cleanup_scratch()


if __name__ == '__main__':
    sys.stdout.reconfigure(line_buffering=True)
    rc = main(sys.argv)
    sys.stdout.flush()
    os._exit(rc)
